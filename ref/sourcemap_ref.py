"""Source Map V3 'mappings' semantics written from the specification (not from calmjs):
each line of segments; field 0 = generated column relative to the previous segment of the same line
(reset per line); fields 1..3 = source index, source line, source column relative to the previous
occurrence anywhere in the file; field 4 = name index, likewise.  Arity 1 = unmapped.

decode_relative works on python ints and on SX symbolic ints alike (only + and comparisons)."""


def decode_relative(mappings, state):
    """mappings: list of lines of tuples (relative).  state: dict gencol/src/line/col/name = decoder
    accumulators before the first line (gencol applies to the first line only).
    returns list of lines of entry dicts (absolute values)"""
    src, line, col, name = state['src'], state['line'], state['col'], state['name']
    out = []
    for li, segs in enumerate(mappings):
        gencol = state['gencol'] if li == 0 else 0
        ents = []
        for seg in segs:
            n = len(seg)
            if n == 0:
                continue
            gencol = gencol + seg[0]
            e = {'kind': n, 'gencol': gencol, 'gencol_delta_ok': seg[0] >= 0}
            if n in (4, 5):
                src = src + seg[1]
                line = line + seg[2]
                col = col + seg[3]
                e.update(src=src, line=line, col=col)
                if n == 5:
                    name = name + seg[4]
                    e['name'] = name
            elif n != 1:
                raise ValueError('segment of arity %d' % n)
            e.update(acc_src=src, acc_line=line, acc_col=col, acc_name=name)
            ents.append(e)
        out.append(ents)
    return out


def governing(ents, gc):
    g = None
    for e in ents:
        if e['gencol'] <= gc:
            g = e
    return g


# ---------------------------------------------------------------- concrete checkers (replay)
def split_keep(text):
    """split at LF, CR, CRLF keeping terminators"""
    out = []
    cur = ''
    i = 0
    while i < len(text):
        c = text[i]
        if c == '\r' and text[i + 1:i + 2] == '\n':
            out.append(cur + '\r\n')
            cur = ''
            i += 2
            continue
        if c in '\r\n':
            out.append(cur + c)
            cur = ''
        else:
            cur += c
        i += 1
    if cur:
        out.append(cur)
    return out


def check_stream(frags, written, mappings, sources, names):
    text = ''.join(f[0] for f in frags)
    if written != text:
        return False, 'text written differs from the fragments'
    nlines = 1 + sum(1 for p in split_keep(text) if p[-1] in '\r\n')
    if len(mappings) != nlines:
        return False, '%d mapping lines for %d lines of text' % (len(mappings), nlines)
    dec = decode_relative(mappings, dict(gencol=0, src=0, line=0, col=0, name=0))
    for le in dec:
        for e in le:
            if not e['gencol_delta_ok']:
                return False, 'generated columns decrease'
            if e['kind'] in (4, 5) and not 0 <= e['src'] < len(sources):
                return False, 'source index %d out of range of %r' % (e['src'], sources)
            if e['kind'] == 5 and not 0 <= e['name'] < len(names):
                return False, 'name index %d out of range of %r' % (e['name'], names)
    gl, gc = 0, 0
    cur_src = None
    for k, (t, ln, cn, name, source) in enumerate(frags):
        if source is not None:
            cur_src = source
        if ln and cn and t:
            e = governing(dec[gl], gc)
            exp_src = 'about:invalid' if (cur_src is NotImplemented or cur_src is None) else cur_src
            if e is None or e['kind'] == 1:
                return False, 'fragment #%d at generated %d:%d is unmapped' % (k, gl, gc)
            got = (sources[e['src']], e['line'], e['col'] + (gc - e['gencol']))
            if got != (exp_src, ln - 1, cn - 1):
                return False, 'fragment #%d %r at generated %d:%d decodes to %r, expected %r' % (k, t, gl, gc, got, (exp_src, ln - 1, cn - 1))
            if name is not None:
                if e['kind'] != 5 or e['gencol'] != gc or names[e['name']] != name:
                    return False, 'fragment #%d: original name %r not recovered' % (k, name)
            elif e['kind'] != 4:
                return False, 'fragment #%d inherits a name' % k
        for p in split_keep(t):
            if p[-1] in '\r\n':
                gl += 1
                gc = 0
            else:
                gc += len(p)
    return True, 'ok'


def check_normalized_line(line, carry, res, carry_out):
    base = dict(gencol=0, src=100, line=100, col=100, name=100)
    o_state = dict(base)
    o_state['col'] = base['col'] + carry
    orig = decode_relative([[s for s in line if len(s)]], o_state)[0]
    norm = decode_relative([res], dict(base))[0]
    for j, o in enumerate(orig):
        nxt = orig[j + 1] if j + 1 < len(orig) else None
        if nxt is not None and not nxt['gencol'] > o['gencol']:
            continue
        e = governing(norm, o['gencol'])
        if o['kind'] == 1:
            if e is not None and e['kind'] != 1:
                return False, 'unmapped marker #%d lost' % j
            continue
        if e is None or e['kind'] == 1:
            return False, 'segment #%d unmapped after normalisation' % j
        if (e['src'], e['line'], e['col'] + o['gencol'] - e['gencol']) != (o['src'], o['line'], o['col']):
            return False, 'segment #%d decodes to %r, expected %r' % (j, (e['src'], e['line'], e['col'] + o['gencol'] - e['gencol']), (o['src'], o['line'], o['col']))
        if o['kind'] == 5 and (e['kind'] != 5 or e['gencol'] != o['gencol'] or e['name'] != o['name']):
            return False, 'name of segment #%d lost' % j
        if o['kind'] == 4 and e['kind'] != 4:
            return False, 'segment #%d inherits a name' % j
    o_end = orig[-1]['acc_col'] if orig else o_state['col']
    n_end = norm[-1]['acc_col'] if norm else base['col']
    if o_end != n_end + carry_out:
        return False, 'carried column wrong'
    for k in ('acc_src', 'acc_line', 'acc_name'):
        if (orig[-1][k] if orig else base[k[4:]]) != (norm[-1][k] if norm else base[k[4:]]):
            return False, 'normalisation loses a %s delta' % k[4:]
    return True, 'ok'


# ---------------------------------------------------------------- model -> concrete replay input
def _ints(w):
    out = {}
    for k, v in w.items():
        try:
            out[k] = int(v)
        except (TypeError, ValueError):
            pass
    return out


TERMS = ['\n', '\r', '\r\n']


def _text(shape, tag, m):
    s = ''
    i = 0
    n = 0
    while i < len(shape):
        if shape[i] == 'R':
            s += 'x' * max(1, min(m.get('%s_run%d' % (tag, n), 1), 50))
            i += 1
        if i < len(shape) and shape[i] == 'T':
            s += TERMS[m.get('%s_term%d' % (tag, n), 0)]
            i += 1
        n += 1
    return s


def concretize(kind, args, w):
    m = _ints(w)
    if kind == 'N':
        (ars,) = args
        return {'leg': 'N', 'carry': m.get('carry', 0),
                'line': [[m.get('s%d_%d' % (j, a), 0) for a in range(ar)] for j, ar in enumerate(ars)]}
    if kind == 'E':
        frs, nz = args
        frags = []
        for k, (pos, shape, name, source) in enumerate(frs):
            ln, cn = {'N': (None, None), 'Z': (0, 0)}.get(pos, (m.get('ln%d' % k, 1), m.get('cn%d' % k, 1)))
            frags.append([_text(shape, 'f%d' % k, m), ln, cn, name, '<NotImplemented>' if source is NotImplemented else source])
        return {'leg': 'E', 'normalize': nz, 'fragments': frags}
    pos, shape, nk, sk = args
    ln, cn = {'N': (None, None), 'Z': (0, 0)}.get(pos, (m.get('lineno', 1), m.get('colno', 1)))
    return {'leg': 'W', 'task': list(args), 'model': m, 'fragments': [[_text(shape, 'f', m), ln, cn, None, None]]}


def replay_step(sm, w):
    """rebuild the concrete writer state of a leg-W counterexample and run one real step"""
    import io
    pos, shape, nk, sk = w['task']
    m = w['model']
    NAMES = ['nameA', 'b', 'third_name']
    SOURCES = ['a.js', 'lib/b.js', 'c.js']
    book = sm.default_book()
    kp = book.keeper
    G, prevG = m.get('G', 0), m.get('prevG', 0)
    kp._curr['sink_column'], kp._prev['sink_column'] = G, prevG
    sl, sc = m.get('cur_src_line', 1), m.get('cur_src_col', 1)
    kp._curr['source_line'], kp._prev['source_line'] = sl, m.get('junk1', 0)
    kp._curr['source_column'], kp._prev['source_column'] = sc, m.get('junk2', 0)
    book.original_len, book.written_len = m.get('orig_len', 0), m.get('written_len', 0)

    def table(tag, known):
        size = m.get(tag + '_size', len(known))
        d = {}
        idx = {k: m.get('%s_idx%d' % (tag, j), j) for j, k in enumerate(known)}
        inv = {v: k for k, v in idx.items()}
        for i in range(size):
            d[inv.get(i, '%s_filler_%d' % (tag, i))] = i
        return d
    names, sources = sm.Names(), sm.Names()
    names._names = table('names', NAMES[:2])
    ks = SOURCES[:2] + ([NotImplemented] if sk == 'notimpl_known' else [])
    sources._names = table('sources', ks)
    names._current, sources._current = m.get('names_current', 0), m.get('sources_current', 0)
    oname = {'none': None, 'new': NAMES[2]}.get(nk, NAMES[0])
    source = {'none': None, 'new': SOURCES[2], 'notimpl_new': NotImplemented, 'notimpl_known': NotImplemented}.get(sk, SOURCES[0])
    text, ln, cn = w['fragments'][0][:3]
    D = dict(gencol=prevG, src=sources._current, line=sl - 1, col=sc - 1, name=names._current)
    mappings = [[]]
    out = io.StringIO()
    sm.write([(text, ln, cn, oname, source)], out, normalize=False, book=book, sources=sources, names=names, mappings=mappings)
    dec = decode_relative(mappings, D)
    pieces = split_keep(text)
    nterm = sum(1 for p in pieces if p[-1] in '\r\n')
    info = 'state G=%d prevG=%d line=%d col=%d; fragment %r -> segments %r' % (G, prevG, sl, sc, (text, ln, cn, oname, source), mappings)
    if len(mappings) != 1 + nterm:
        return True, info + ': wrong number of mapping lines'
    if out.getvalue() != text:
        return True, info + ': text differs'
    if pieces:
        first = dec[0][0] if dec[0] else None
        if first is None or first['gencol'] != G:
            return True, info + ': first segment not at the generated column'
        if pos == 'P':
            exp_src = D['src'] if source is None else sources._names[source]
            if first['kind'] not in (4, 5) or (first['line'], first['col'], first['src']) != (ln - 1, cn - 1, exp_src):
                return True, info + ': decodes to %r expected %r' % ((first.get('line'), first.get('col'), first.get('src')), (ln - 1, cn - 1, exp_src))
            if oname is not None and (first['kind'] != 5 or first['name'] != names._names[oname]):
                return True, info + ': name not recovered'
            if oname is None and first['kind'] != 4:
                return True, info + ': inherits a name'
    for le in dec:
        for e in le:
            if not e['gencol_delta_ok']:
                return True, info + ': generated columns decrease'
            if e['kind'] in (4, 5) and not 0 <= e['src'] < len(sources._names):
                return True, info + ': source index out of range'
            if e['kind'] == 5 and not 0 <= e['name'] < len(names._names):
                return True, info + ': name index out of range'
    # invariant
    if pieces and pieces[-1][-1] not in '\r\n':
        G2 = (G if nterm == 0 else 0) + len(pieces[-1])
        last = G if nterm == 0 else 0
    elif pieces:
        G2, last = 0, 0
    else:
        G2, last = G, prevG
    final = [e for le in dec for e in le]
    bad = kp._curr['sink_column'] != G2 or kp._prev['sink_column'] != last
    if final:
        f = final[-1]
        bad = bad or kp._curr['source_line'] - 1 != f['acc_line'] or kp._curr['source_column'] - 1 != f['acc_col'] \
            or sources._current != f['acc_src'] or names._current != f['acc_name']
    if bad:
        return True, info + ': writer state no longer matches a conforming decoder (later fragments will decode wrongly)'
    return False, info + ': ok'
