"""Base64 VLQ as in the Source Map V3 specification - written from the spec, not from calmjs.
Runs on python ints and (under SX) on symbolic ints alike: only + - * & | >> << comparisons and truth tests."""
ALPHABET = 'ABCDEFGHIJKLMNOPQRSTUVWXYZabcdefghijklmnopqrstuvwxyz0123456789+/'


def encode_digits(i):
    """list of base64 digit values (0..63) of the canonical encoding of i"""
    v = ((-i) << 1) | 1 if i < 0 else i << 1     # sign in the least significant bit
    out = []
    while True:
        d = v & 31                               # 5-bit groups, little-endian
        v = v >> 5
        if v:
            out.append(d | 32)                   # continuation bit
        else:
            out.append(d)
            return out


def decode_digits(ds):
    """list of ints from a list of digit values; raises ValueError on a dangling continuation"""
    out = []
    acc = 0
    shift = 0
    pending = False
    for d in ds:
        acc = acc | ((d & 31) << shift)
        shift += 5
        pending = True
        if not (d & 32):
            mag = acc >> 1
            out.append(-mag if (acc & 1) else mag)
            acc = 0
            shift = 0
            pending = False
    if pending:
        raise ValueError('dangling continuation')
    return out
