"""ECMA-262 5.1 clause 7 lexical grammar, written from the standard (not from calmjs):
WhiteSpace, LineTerminator, Comment, IdentifierName, Punctuator, DivPunctuator, NumericLiteral, StringLiteral,
RegularExpressionLiteral; longest-match InputElementDiv / InputElementRegExp.
Used only to *judge / replay* witnesses ("any conforming ES5 parser"), never as the deciding step."""
import re, unicodedata

WHITESPACE = '\t\x0b\x0c \xa0\ufeff' + ''.join(chr(c) for c in range(0x110000) if unicodedata.category(chr(c)) == 'Zs' and chr(c) not in ' \xa0')
LINE_TERMINATORS = '\n\r\u2028\u2029'
PUNCTUATORS = sorted(['{', '}', '(', ')', '[', ']', '.', ';', ',', '<', '>', '<=', '>=', '==', '!=', '===', '!==', '+', '-', '*', '%',
                      '++', '--', '<<', '>>', '>>>', '&', '|', '^', '!', '~', '&&', '||', '?', ':', '=', '+=', '-=', '*=', '%=', '<<=',
                      '>>=', '>>>=', '&=', '|=', '^='], key=len, reverse=True)
DIV_PUNCTUATORS = ['/=', '/']
RESERVED = set('break do instanceof typeof case else new var catch finally return void continue for switch while debugger function '
               'this with default if throw delete in try class enum extends super const export import null true false'.split())


_IDCATS = ('Lu', 'Ll', 'Lt', 'Lm', 'Lo', 'Nl', 'Mn', 'Mc', 'Nd', 'Pc')


def is_id_start(ch):
    if ord(ch) < 128:
        return ch in '$_' or ch.isalpha()
    # ES5 refers to "Unicode 3.0 or later": the category of a few code points moved between versions (e.g. U+1885
    # Lo -> Mn), so for non-ASCII characters start/part are not told apart here (deliberately permissive oracle)
    return unicodedata.category(ch) in _IDCATS


def is_id_part(ch):
    if ord(ch) < 128:
        return ch in '$_' or ch.isalnum()
    return unicodedata.category(ch) in _IDCATS or ch in '\u200c\u200d'


def match_identifier(s, i):
    j = i
    n = len(s)

    def esc(k):
        if s[k:k + 2] == '\\u' and re.fullmatch(r'[0-9a-fA-F]{4}', s[k + 2:k + 6] or ''):
            return chr(int(s[k + 2:k + 6], 16)), k + 6
        return None, k
    if j < n and is_id_start(s[j]):
        j += 1
    else:
        c, k = esc(j) if j < n else (None, j)
        if c is not None and is_id_start(c):
            j = k
        else:
            return None
    while j < n:
        if is_id_part(s[j]):
            j += 1
            continue
        c, k = esc(j)
        if c is not None and is_id_part(c):
            j = k
            continue
        break
    return j


NUM = re.compile(r'0[xX][0-9a-fA-F]+|(?:(?:0|[1-9][0-9]*)(?:\.[0-9]*)?|\.[0-9]+)(?:[eE][+-]?[0-9]+)?')
LEGACY_OCTAL = re.compile(r'0[0-7]+')          # B.1.1, admitted by the parser under test and by browsers


def match_number(s, i, legacy_octal=True):
    m = NUM.match(s, i)
    best = m.end() if m and m.end() > i else None
    if legacy_octal:
        m2 = LEGACY_OCTAL.match(s, i)
        if m2 and (best is None or m2.end() > best):
            best = m2.end()
    return best


def match_string(s, i):
    if i >= len(s) or s[i] not in '"\'':
        return None
    q = s[i]
    j = i + 1
    n = len(s)
    while j < n:
        c = s[j]
        if c == q:
            return j + 1
        if c in LINE_TERMINATORS:
            return None
        if c == '\\':
            if j + 1 >= n:
                return None
            d = s[j + 1]
            if d == '\r' and s[j + 2:j + 3] == '\n':
                j += 3
                continue
            if d in LINE_TERMINATORS:
                j += 2
                continue
            if d == 'x':
                if not re.fullmatch(r'[0-9a-fA-F]{2}', s[j + 2:j + 4] or ''):
                    return None
                j += 4
                continue
            if d == 'u':
                if not re.fullmatch(r'[0-9a-fA-F]{4}', s[j + 2:j + 6] or ''):
                    return None
                j += 6
                continue
            j += 2
            continue
        j += 1
    return None


def match_regex(s, i):
    if s[i:i + 1] != '/' or s[i + 1:i + 2] in ('*', '/', ''):
        return None
    j = i + 1
    n = len(s)
    in_class = False
    while j < n:
        c = s[j]
        if c in LINE_TERMINATORS:
            return None
        if c == '\\':
            if j + 1 >= n or s[j + 1] in LINE_TERMINATORS:
                return None
            j += 2
            continue
        if in_class:
            if c == ']':
                in_class = False
        elif c == '[':
            in_class = True
        elif c == '/':
            j += 1
            while j < n and is_id_part(s[j]):
                j += 1
            return j
        j += 1
    return None


def match_comment(s, i):
    if s[i:i + 2] == '//':
        j = i + 2
        while j < len(s) and s[j] not in LINE_TERMINATORS:
            j += 1
        return j
    if s[i:i + 2] == '/*':
        k = s.find('*/', i + 2)
        return None if k < 0 else k + 2
    return None


def next_element(s, i, regex_goal):
    """longest-match input element at i: (kind, end) or (None, i) if none"""
    c = s[i]
    if c in WHITESPACE:
        return 'ws', i + 1
    if c in LINE_TERMINATORS:
        return 'lt', (i + 2 if s[i:i + 2] == '\r\n' else i + 1)
    cands = []
    e = match_comment(s, i)
    if e:
        cands.append(('comment', e))
    e = match_identifier(s, i)
    if e:
        cands.append(('id', e))
    e = match_number(s, i)
    if e:
        cands.append(('num', e))
    e = match_string(s, i)
    if e:
        cands.append(('str', e))
    for p in PUNCTUATORS:
        if s.startswith(p, i):
            cands.append(('punct', i + len(p)))
            break
    if regex_goal:
        e = match_regex(s, i)
        if e:
            cands.append(('regex', e))
    elif not s.startswith('//', i) and not s.startswith('/*', i):
        for p in DIV_PUNCTUATORS:
            if s.startswith(p, i):
                cands.append(('punct', i + len(p)))
                break
    if not cands:
        return None, i
    return max(cands, key=lambda kv: kv[1])


def check_segmentation(text, expected):
    """expected: list of token spellings in order.  True iff a conforming scanner, choosing at each token the goal symbol
    under which the expected token is an input element, reads exactly these tokens (only white space, line terminators
    and comments in between), and no NumericLiteral is immediately followed by IdentifierStart / DecimalDigit."""
    i = 0
    n = len(text)
    k = 0
    while True:
        while i < n:
            kind, e = next_element(text, i, False)
            if kind in ('ws', 'lt') or (kind == 'comment' and (k >= len(expected) or not expected[k].startswith(('//', '/*')))):
                i = e
            else:
                break
        if k >= len(expected):
            return i >= n, 'trailing text %r' % text[i:i + 20]
        tok = expected[k]
        if not text.startswith(tok, i):
            return False, 'expected token %r at offset %d, found %r' % (tok, i, text[i:i + 12])
        ok = False
        for goal in (False, True):
            kind, e = next_element(text, i, goal)
            if kind is not None and e == i + len(tok):
                ok = True
                if kind == 'num' and e < n and (is_id_start(text[e]) or text[e].isdigit() or text[e] == '\\'):
                    return False, 'numeric literal %r immediately followed by %r (7.8.3)' % (tok, text[e])
                break
        if not ok:
            kind, e = next_element(text, i, tok.startswith('/') and len(tok) > 1 and not tok.startswith('/='))
            return False, 'at offset %d a conforming scanner reads %r, not the token %r' % (i, text[i:e] if kind else text[i:i + 8], tok)
        i += len(tok)
        k += 1
