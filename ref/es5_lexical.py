"""ECMA-262 5.1 clause 7 (lexical grammar) as Python regular expressions, written from the standard - not from calmjs.

Each entry: kind -> (pattern, dontcare) where `dontcare` (or None) is a pattern of strings this reference does not judge
(Annex B compatibility forms, which 5.1 lists as optional).  Non-ASCII letter / mark / digit / connector classes are
parameters (the standard says "Unicode 3.0 or later", so which code points a given table holds is not judged): the caller
supplies them.  Look-arounds are avoided so the patterns translate to plain regular languages.
"""

LT = r'\n\r\u2028\u2029'


def patterns(LETTER, COMBINING_MARK, DIGIT, CONNECTOR):
    hex4 = r'[0-9a-fA-F]{4}'
    # 7.6  IdentifierName :: IdentifierStart IdentifierPart*
    id_start = r'(?:[a-zA-Z$_]|' + LETTER + r'|\\u' + hex4 + r')'
    id_part = r'(?:[a-zA-Z$_0-9]|' + LETTER + '|' + COMBINING_MARK + '|' + DIGIT + '|' + CONNECTOR + r'|\u200c|\u200d|\\u' + hex4 + r')'
    ident = id_start + id_part + '*'
    # 7.8.3
    dec_int = r'(?:0|[1-9][0-9]*)'
    exp = r'(?:[eE][+-]?[0-9]+)'
    number = r'(?:0[xX][0-9a-fA-F]+|' + dec_int + r'\.[0-9]*' + exp + r'?|\.[0-9]+' + exp + '?|' + dec_int + exp + '?)'
    number_dc = r'0[0-7]+'                      # B.1.1 LegacyOctalIntegerLiteral

    # 7.8.4
    def string(q):
        return (q + r'(?:[^' + q + r'\\' + LT + r']'              # SourceCharacter but not quote, backslash, LineTerminator
                r'|\\(?:\r\n|[' + LT + r'])'                      # LineContinuation
                r'|\\[^0-9xu' + LT + r']'                         # CharacterEscapeSequence (SingleEscapeCharacter | NonEscapeCharacter)
                r'|\\0'                                           # \0 [lookahead not a DecimalDigit]: see dontcare
                r'|\\x[0-9a-fA-F]{2}'
                r'|\\u' + hex4 + r')*' + q)
    strlit = r'(?:' + string('"') + '|' + string("'") + ')'
    # strings with a backslash-digit sequence other than a lone \0 involve the look-ahead restriction and B.1.2 octal escapes
    string_dc = r'[\x00-\U0010ffff]*\\(?:[1-9]|0[0-9])[\x00-\U0010ffff]*'
    # 7.8.5
    nt = r'[^' + LT
    cls = r'\[(?:[^\]\\' + LT + r']|\\[^' + LT + r'])*\]'
    bs = r'\\[^' + LT + r']'
    first = r'(?:' + nt + r'*\\/\[]|' + bs + '|' + cls + ')'
    rest = r'(?:' + nt + r'\\/\[]|' + bs + '|' + cls + ')'
    regex = '/' + first + rest + '*/' + id_part + '*'
    # 7.4
    line_comment = r'//[^' + LT + r']*'
    block_comment = r'/\*(?:[^*]|\*+[^*/])*\*+/'
    return {
        'ID': (ident, None),
        'NUMBER': (number, number_dc),
        'STRING': (strlit, string_dc),
        'REGEX': (regex, None),
        'LINE_COMMENT': (line_comment, None),
        'BLOCK_COMMENT': (block_comment, None),
    }


# 7.7 Punctuator + DivPunctuator
PUNCTUATORS = '{ } ( ) [ ] . ; , < > <= >= == != === !== + - * % ++ -- << >> >>> & | ^ ! ~ && || ? : = += -= *= %= <<= >>= >>>= &= |= ^= / /='.split()

# 7.6.1 ReservedWord = Keyword | FutureReservedWord (non-strict) | NullLiteral | BooleanLiteral
RESERVED = ('break do instanceof typeof case else new var catch finally return void continue for switch while debugger '
            'function this with default if throw delete in try class enum extends super const export import null true false').split()

# 7.2 WhiteSpace: TAB VT FF SP NBSP BOM and any other Unicode "space separator" (category Zs)
WHITESPACE_FIXED = '\t\x0b\x0c \xa0\ufeff'
