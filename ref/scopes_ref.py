"""ES5 scope resolution over a calmjs AST, written from ECMA-262 5.1 clause 10 / 12.14 / 13 (not from calmjs' obfuscator):
function scopes (parameters, hoisted var and function declarations, the name of a named function expression in a
scope of its own around the function), catch parameter scoped to its catch block, accessors as function scopes.
resolve(tree) -> list of (occurrence number in document order, spelling, binding) for every Identifier that denotes a
variable; binding = ('free', name) or (scope id, name).  with / eval are out of scope (caller's responsibility)."""


def _kids(n):
    return [c for c in n]


class Scope:
    def __init__(self, sid, parent, kind):
        self.sid, self.parent, self.kind = sid, parent, kind
        self.names = set()

    def lookup(self, name):
        s = self
        while s is not None:
            if name in s.names:
                return (s.sid, name)
            s = s.parent
        return ('free', name)


def resolve(tree):
    from calmjs.parse import asttypes as T
    counter = [0]
    occ = []          # (node, scope)

    def new_scope(parent, kind):
        counter[0] += 1
        return Scope(counter[0], parent, kind)

    def hoist(node, scope):
        """var and function declarations of a function body / program belong to `scope` (not into nested functions)"""
        for c in _kids(node):
            if isinstance(c, T.FuncDecl):
                if c.identifier is not None:
                    scope.names.add(c.identifier.value)
                continue
            if isinstance(c, (T.FuncExpr, T.GetPropAssign, T.SetPropAssign)):
                continue
            if isinstance(c, T.VarDecl):
                scope.names.add(c.identifier.value)
            hoist(c, scope)

    def func(node, scope, params, body, name=None, expr=False):
        if expr and name is not None:
            scope = new_scope(scope, 'funcname')
            scope.names.add(name.value)
            occ.append((name, scope))
        fs = new_scope(scope, 'function')
        for p in params:
            fs.names.add(p.value)
            occ.append((p, fs))
        for b in body:
            if isinstance(b, T.FuncDecl) and b.identifier is not None:
                fs.names.add(b.identifier.value)
        for b in body:
            hoist_stmt(b, fs)
        for b in body:
            walk(b, fs)

    def hoist_stmt(b, fs):
        from calmjs.parse import asttypes as T
        if isinstance(b, T.FuncDecl):
            if b.identifier is not None:
                fs.names.add(b.identifier.value)
            return
        if isinstance(b, (T.FuncExpr, T.GetPropAssign, T.SetPropAssign)):
            return
        if isinstance(b, T.VarDecl):
            fs.names.add(b.identifier.value)
        hoist(b, fs)

    def walk(n, scope):
        if isinstance(n, T.FuncDecl):
            if n.identifier is not None:
                occ.append((n.identifier, scope))
            func(n, scope, n.parameters, n.elements)
            return
        if isinstance(n, T.FuncExpr):
            func(n, scope, n.parameters, n.elements, n.identifier, expr=True)
            return
        if isinstance(n, T.GetPropAssign):
            func(n, scope, [], n.elements)
            return
        if isinstance(n, T.SetPropAssign):
            func(n, scope, [n.parameter] if n.parameter is not None else [], n.elements)
            return
        if isinstance(n, T.Catch):
            cs = new_scope(scope, 'catch')
            cs.names.add(n.identifier.value)
            occ.append((n.identifier, cs))
            walk(n.elements, cs)
            return
        if isinstance(n, T.DotAccessor):
            walk(n.node, scope)
            return
        if isinstance(n, T.Assign) and isinstance(n.left, T.PropIdentifier):
            walk(n.right, scope)
            return
        if isinstance(n, T.Label):
            walk(n.statement, scope)
            return
        if isinstance(n, (T.Break, T.Continue)):
            return
        if isinstance(n, T.PropIdentifier):
            return
        if isinstance(n, T.Identifier):
            occ.append((n, scope))
            return
        for c in _kids(n):
            walk(c, scope)

    g = new_scope(None, 'global')
    hoist(tree, g)
    for c in _kids(tree):
        walk(c, g)
    occ.sort(key=lambda p: (p[0].lexpos if p[0].lexpos is not None else 0))
    return [(i, n.value, s.lookup(n.value), s) for i, (n, s) in enumerate(occ)], g


def binding_classes(res):
    """partition of occurrence numbers by binding, plus the free / global ones"""
    groups = {}
    for i, name, b, s in res:
        groups.setdefault(b, []).append(i)
    return groups
