import sys, os, importlib, argparse, traceback
from . import common


def main(argv=None):
    ap = argparse.ArgumentParser(prog='check')
    ap.add_argument('what', help='property id (C01..C20), or "replay"')
    ap.add_argument('arg', nargs='?')
    ap.add_argument('--tier', default=None)
    a = ap.parse_args(argv)
    if a.what == 'replay':
        from . import replay
        return 1 if replay.main(a.arg) == 10 else 0
    pid = a.what.upper()
    if a.tier:
        os.environ['VERIF_TIER'] = a.tier
    try:
        mod = importlib.import_module('vplib.checks.%s' % pid.lower())
    except ModuleNotFoundError as e:
        print('no check for %s (%s)' % (pid, e))
        return common.EXIT_HARNESS
    try:
        return mod.main()
    except common.HarnessError as e:
        print('HARNESS-ERROR %s: %s' % (pid, e))
        return common.EXIT_HARNESS
    except Exception:
        traceback.print_exc()
        print('HARNESS-ERROR %s: unexpected exception in the check itself' % pid)
        return common.EXIT_HARNESS


if __name__ == '__main__':
    sys.exit(main())
