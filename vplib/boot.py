"""Scratch copy of the repository's *current working tree* and namespace re-pointing.

/venv has calmjs.parse installed in site-packages and the ``calmjs`` namespace is
pinned there by an nspkg .pth, so ``import calmjs.parse`` never sees /repo/src.
Every check therefore copies <repo>/src to a temp dir outside /repo and /verif,
re-points ``calmjs.__path__`` at it and lets ply regenerate its table modules
there.  Nothing is written into the repository.
"""
import atexit, os, shutil, sys, tempfile, hashlib

REPO = os.environ.get('CALMJS_VERIF_REPO', '/repo')
_scratch = None


def scratch_dir():
    """create (once per process tree) the scratch copy; returns path of the copied ``src``"""
    global _scratch
    if _scratch is not None:
        return _scratch
    inherited = os.environ.get('CALMJS_VERIF_SCRATCH')
    if inherited and os.path.isdir(inherited):
        _scratch = inherited
        return _scratch
    base = tempfile.mkdtemp(prefix='calmjs_vp_')
    shutil.copytree(os.path.join(REPO, 'src'), os.path.join(base, 'src'),
                    ignore=shutil.ignore_patterns('__pycache__', '*.pyc', 'lextab_*', 'yacctab_*', '*.egg-info'))
    _scratch = os.path.join(base, 'src')
    pid = os.getpid()

    def _cleanup():
        if os.getpid() == pid:
            shutil.rmtree(base, ignore_errors=True)
    atexit.register(_cleanup)
    return _scratch


def _purge():
    for m in list(sys.modules):
        if m == 'calmjs.parse' or m.startswith('calmjs.parse.'):
            del sys.modules[m]


def load_plain():
    """import the un-instrumented package from the scratch copy"""
    src = scratch_dir()
    _purge()
    import calmjs
    calmjs.__path__ = [os.path.join(src, 'calmjs')]
    import calmjs.parse
    assert calmjs.parse.__file__.startswith(src), calmjs.parse.__file__
    return src


def source_hash(relpath):
    p = os.path.join(scratch_dir(), relpath)
    return hashlib.sha256(open(p, 'rb').read()).hexdigest()[:16]


def func_fingerprint(*objs):
    """qualified names + source hashes of the functions a check encodes"""
    import inspect
    out = []
    for o in objs:
        try:
            src = inspect.getsource(o)
            h = hashlib.sha256(src.encode()).hexdigest()[:12]
        except Exception:
            h = '?'
        out.append('%s.%s@%s' % (getattr(o, '__module__', '?'), getattr(o, '__qualname__', repr(o)), h))
    return out


def fresh_parser(**kw):
    """a Parser whose lexer and LALR tables are generated from the current sources in this process
    (never read from a cached tab module), keeping full production objects"""
    from calmjs.parse.parsers import es5
    tag = '%d_%d' % (os.getpid(), len(_fresh))
    _fresh.append(tag)
    return es5.Parser(yacc_optimize=False, lex_optimize=False, yacctab='vp_fresh_yacctab_' + tag,
                      lextab='vp_fresh_lextab_' + tag, **kw)


_fresh = []


def warm_tabs():
    """generate the default lextab/yacctab modules once (in the parent) so that forked workers and
    subprocesses sharing the scratch copy only ever read them"""
    from calmjs.parse.parsers import es5
    es5.Parser()
    es5.Parser()
