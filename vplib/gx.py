"""GX - the grammar and the generated LALR tables as SAT.

* CFG-SAT: derivability of w[i:i+l] from a non-terminal, dotted-item tabulation (iff-definitions; the
  same-span dependency graph is checked acyclic while encoding).
* LR-SAT: tabulation of the deterministic LR run of the *real ply tables*: R[s,X,i,l] <=> started in
  state s at position i the tables consume w[i:i+l] and then perform the goto/shift on X.  Exact for the
  language the generated parser accepts, including every silent conflict resolution.
* used-marking + labelled spans on both sides for tree comparison.
Solving: DIMACS -> z3 (the only SAT back end present).
"""
import os, sys, subprocess, tempfile, time, itertools, json
from collections import defaultdict, deque

sys.setrecursionlimit(1000000)
Z3BIN = os.path.join(os.path.dirname(os.path.dirname(os.path.abspath(__file__))), '.pydeps', 'bin', 'z3')


class CNF:
    def __init__(self):
        self.n = 0
        self.cl = []
        self.TRUE = self.var()
        self.add(self.TRUE)

    def var(self):
        self.n += 1
        return self.n

    def add(self, *l):
        self.cl.append(l)

    def AND(self, a, b):
        if a is None or b is None:
            return None
        if a == self.TRUE:
            return b
        if b == self.TRUE:
            return a
        if a == b:
            return a
        c = self.var()
        self.add(-c, a)
        self.add(-c, b)
        self.add(c, -a, -b)
        return c

    def OR(self, alts):
        alts = [a for a in alts if a is not None]
        if not alts:
            return None
        if self.TRUE in alts:
            return self.TRUE
        alts = list(dict.fromkeys(alts))
        if len(alts) == 1:
            return alts[0]
        v = self.var()
        for a in alts:
            self.add(-a, v)
        self.add(-v, *alts)
        return v

    def write(self, fn):
        with open(fn, 'w') as f:
            f.write('p cnf %d %d\n' % (self.n, len(self.cl)))
            f.write('\n'.join(' '.join(map(str, c)) + ' 0' for c in self.cl))
            f.write('\n')

    def solve(self, timeout=None):
        """returns ('sat', set_of_true_lits) | ('unsat', None) | ('unknown', msg)"""
        fd, fn = tempfile.mkstemp(prefix='vp_', suffix='.cnf')
        os.close(fd)
        try:
            self.write(fn)
            t = time.time()
            try:
                out = subprocess.run([Z3BIN, '-dimacs', fn], capture_output=True, text=True, timeout=timeout).stdout
            except subprocess.TimeoutExpired:
                return 'unknown', 'timeout', time.time() - t
            dt = time.time() - t
        finally:
            os.unlink(fn)
        if 'UNSATISFIABLE' in out or out.strip().startswith('s UNSAT') or out.strip() == 'unsat':
            return 'unsat', None, dt
        if 'SATISFIABLE' in out or out.strip().startswith('sat'):
            lits = set()
            for line in out.splitlines():
                if line.startswith('v'):
                    for x in line[1:].split():
                        if x.lstrip('-').isdigit():
                            lits.add(int(x))
            if not lits:   # z3 -dimacs prints "sat" then the model on one line of ints
                for x in out.replace('sat', ' ').split():
                    if x.lstrip('-').isdigit():
                        lits.add(int(x))
            return 'sat', lits, dt
        return 'unknown', out[:200], dt


class Letters:
    """W[i][t]: one-hot letter variables"""
    def __init__(self, cnf, terms, n):
        self.terms = list(terms)
        self.T = {t: i for i, t in enumerate(self.terms)}
        self.n = n
        self.W = [[cnf.var() for _ in self.terms] for _ in range(n)]
        for i in range(n):
            cnf.add(*self.W[i])
            for a, b in itertools.combinations(self.W[i], 2):
                cnf.add(-a, -b)

    def lit(self, i, t):
        return self.W[i][self.T[t]]

    def word(self, lits):
        return [self.terms[j] for i in range(self.n) for j in range(len(self.terms)) if self.W[i][j] in lits]


# ------------------------------------------------------------------------------------------------ grammar objects
class Grammar:
    def __init__(self, prods, terms, start, conds=None, labels=None):
        self.prods = [(l, tuple(r)) for l, r in prods]      # index = production id
        self.terms = list(terms)
        self.tset = set(terms)
        self.start = start
        self.conds = conds or {}       # prod idx -> tokens the span must not start with
        self.labels = labels or {}     # prod idx -> label string
        self.byl = defaultdict(list)
        for idx, (l, r) in enumerate(self.prods):
            self.byl[l].append((idx, r))
        self.nts = set(self.byl)
        for l, r in self.prods:
            for x in r:
                assert x in self.nts or x in self.tset, 'undefined symbol %r in %s' % (x, l)
        self.minlen = {t: 1 for t in self.terms}
        for a in self.nts:
            self.minlen[a] = 10 ** 9
        ch = True
        while ch:
            ch = False
            for l, r in self.prods:
                m = sum(self.minlen[x] for x in r)
                if m < self.minlen[l]:
                    self.minlen[l] = m
                    ch = True

    def first_sets(self):
        nullable = {a for a in self.nts if self.minlen[a] == 0}
        first = {a: set() for a in self.nts}
        ch = True
        while ch:
            ch = False
            for l, r in self.prods:
                for x in r:
                    add = {x} if x in self.tset else first[x]
                    if not add <= first[l]:
                        first[l] |= add
                        ch = True
                    if not (x in self.nts and x in nullable):
                        break
        return first, nullable

    def last_sets(self):
        nullable = {a for a in self.nts if self.minlen[a] == 0}
        last = {a: set() for a in self.nts}
        ch = True
        while ch:
            ch = False
            for l, r in self.prods:
                for x in reversed(r):
                    add = {x} if x in self.tset else last[x]
                    if not add <= last[l]:
                        last[l] |= add
                        ch = True
                    if not (x in self.nts and x in nullable):
                        break
        return last, nullable


def load_gram(path, terms):
    """reference grammar file, see the header of ref/es5_syntactic.gram for the format"""
    raw = []            # (lhs, starred, items, nofirst, label)
    start = None
    for line in open(path):
        line = line.strip()
        if not line or line.startswith('#'):
            continue
        lhs, rhs = line.split(' : ', 1)
        lhs = lhs.strip()
        starred = lhs.endswith('*')
        lhs = lhs.rstrip('*')
        if start is None:
            start = lhs
        for alt in rhs.split(' | '):
            items = alt.split()
            nf = lab = None
            if items and items[0].startswith('@nofirst'):
                nf = items[0][9:-1].split(',')
                items = items[1:]
            if items and items[-1].startswith('#'):
                lab = items[-1][1:]
                items = items[:-1]
            if items == ['eps']:
                items = []
            variants = [[]]
            for it in items:
                if '|' in it:
                    variants = [v + [c] for v in variants for c in it.split('|')]
                else:
                    variants = [v + [it] for v in variants]
            for v in variants:
                raw.append((lhs, starred, v, nf, lab))
    S = {l for l, st, *_ in raw if st}
    prods, conds, labels = [], {}, {}

    def emit(lhs, items, nf, lab):
        prods.append((lhs, items))
        if nf:
            conds[len(prods) - 1] = nf
        if lab:
            ts = [x for x in items if x in tset]
            labels[len(prods) - 1] = lab + ':' + '+'.join(ts)
    tset = set(terms)
    for lhs, st, items, nf, lab in raw:
        emit(lhs, [('Statement' if x == 'Statement$' else x) for x in items], nf, lab)
    for lhs, st, items, nf, lab in raw:
        if lhs in S:
            if st:
                emit(lhs + '_nsi', [('Statement_nsi' if x == 'Statement$' else x) for x in items], nf, lab)
            elif not (items and items[-1] == 'Statement'):
                emit(lhs + '_nsi', list(items), nf, lab)
    for lhs, st, items, nf, lab in raw:
        if lhs == 'Statement':
            assert len(items) == 1
            emit('Statement_nsi', [items[0] + '_nsi' if items[0] in S else items[0]], None, None)
    return Grammar(prods, terms, start, conds, labels)


class Tables:
    """the real ply LALR tables of a Parser instance"""
    def __init__(self, lrparser):
        self.action = {int(s): dict(d) for s, d in lrparser.action.items()}
        self.goto = {int(s): dict(d) for s, d in lrparser.goto.items()}
        self.prods = []      # index = ply production number; (name, rhs tuple, callable name)
        for p in lrparser.productions:
            rhs = tuple(p.prod) if getattr(p, 'prod', None) is not None else None
            self.prods.append((p.name, rhs, getattr(p, 'func', None), p))
        self.defaulted = dict(getattr(lrparser, 'defaulted_states', {}))
        terms = set()
        for s, d in self.action.items():
            terms |= set(d)
        terms.discard('$end')
        self.terms = sorted(terms)

    def grammar(self, start='program'):
        prods = []
        self.pnum_of = {}
        for num, (name, rhs, func, p) in enumerate(self.prods):
            if num == 0:
                continue
            self.pnum_of[len(prods)] = num
            prods.append((name, rhs))
        return Grammar(prods, self.terms, start)


def extract(parser_obj):
    """Tables + Grammar of a calmjs Parser instance (its .parser is the ply LRParser)"""
    lr = parser_obj.parser
    if not hasattr(lr.productions[1], 'prod'):
        raise RuntimeError('productions without rhs (optimized tables): build with yacc_optimize=False')
    t = Tables(lr)
    return t, t.grammar()


# ------------------------------------------------------------------------------------------------ CFG-SAT
def cfg_encode(cnf, L, G, start=None, want_nodes=False, top_positions=None):
    """returns (top literal or None, node_vars)  node_vars[(label,i,l)] if want_nodes"""
    n = L.n
    T = L.T
    minlen, byl = G.minlen, G.byl
    D, I, inprog = {}, {}, set()
    ntalts, splits = {}, {}

    def sym(X, i, l):
        if X in T:
            return L.W[i][T[X]] if l == 1 else None
        if X in G.tset:
            return None          # terminal of the grammar that is not in the alphabet
        return nt(X, i, l)

    def nt(A, i, l):
        k = (A, i, l)
        if k in D:
            return D[k]
        if l < minlen[A]:
            D[k] = None
            return None
        if k in inprog:
            raise RuntimeError('same-span cycle at %r' % (k,))
        inprog.add(k)
        alts = []
        for idx, r in byl[A]:
            v = item(idx, r, len(r), i, l)
            if v is None:
                continue
            if idx in G.conds and l > 0:
                for t in G.conds[idx]:
                    if t in T:
                        v = cnf.AND(v, -L.W[i][T[t]])
            alts.append((v, idx))
        inprog.discard(k)
        ntalts[k] = alts
        D[k] = cnf.OR([v for v, _ in alts])
        return D[k]

    def item(idx, r, k, i, l):
        key = (idx, k, i, l)
        if key in I:
            return I[key]
        sp = []
        if k == 0:
            res = cnf.TRUE if l == 0 else None
        else:
            X = r[k - 1]
            mpre = sum(minlen[x] for x in r[:k - 1])
            alts = []
            for l2 in range(minlen[X], l - mpre + 1):
                if X in G.tset and l2 != 1:
                    continue
                b = sym(X, i + l - l2, l2)
                if b is None:
                    continue
                a = item(idx, r, k - 1, i, l - l2)
                if a is None:
                    continue
                c = cnf.AND(a, b)
                alts.append(c)
                sp.append((c, None if X in G.tset else (X, i + l - l2, l2), (idx, k - 1, i, l - l2)))
            res = cnf.OR(alts)
        I[key] = res
        splits[key] = sp
        return res

    top = nt(start or G.start, 0, n)
    if top is None or not want_nodes:
        return top, {}
    # ---- used marking, top-down (unambiguous grammar => the derivation)
    root = ('R', (start or G.start, 0, n))
    edges = defaultdict(list)
    pend = defaultdict(int)
    seen = set()
    stack = [root]
    while stack:
        nd = stack.pop()
        if nd in seen:
            continue
        seen.add(nd)
        typ, key = nd
        if typ == 'R':
            for v, idx in ntalts.get(key, []):
                tgt = ('P', (idx, len(G.prods[idx][1]), key[1], key[2]))
                edges[nd].append((tgt, v))
                pend[tgt] += 1
                stack.append(tgt)
        else:
            for c, child, prev in splits.get(key, []):
                if child is not None:
                    tgt = ('R', child)
                    edges[nd].append((tgt, c))
                    pend[tgt] += 1
                    stack.append(tgt)
                tgt = ('P', prev)
                edges[nd].append((tgt, c))
                pend[tgt] += 1
                stack.append(tgt)
    acc = defaultdict(list)
    acc[root] = [top]
    q = deque([root])
    nodes = defaultdict(list)
    while q:
        nd = q.popleft()
        u = cnf.OR(acc[nd])
        typ, key = nd
        if typ == 'P' and key[1] == len(G.prods[key[0]][1]):
            lab = G.labels.get(key[0])
            if lab:
                nodes[(lab, key[2], key[3])].append(u)
        for tgt, cond in edges.get(nd, []):
            acc[tgt].append(cnf.AND(u, cond))
            pend[tgt] -= 1
            if pend[tgt] == 0:
                q.append(tgt)
    return top, {k: cnf.OR(v) for k, v in nodes.items()}


# ------------------------------------------------------------------------------------------------ LR-SAT
def lr_encode(cnf, L, Tb, G, want_nodes=False, label_of=None, start='program'):
    """Tb: Tables, G: its grammar (production idx i <-> ply number Tb.pnum_of[i]).
    returns (top, node_vars, used_prod_vars) ; used_prod_vars[(pidx,i,l)] literal 'production pidx reduced over span'"""
    n = L.n
    T = L.T
    action, goto = Tb.action, Tb.goto
    minlen, byl = G.minlen, G.byl

    def la_is_reduce(s, j, pnum):
        toks = [t for t, a in action[s].items() if a == -pnum]
        if j == n:
            return cnf.TRUE if '$end' in toks else None
        return cnf.OR([L.W[j][T[t]] for t in toks if t != '$end' and t in T])

    R, P, splits, ntalts = {}, {}, {}, {}

    def sym(s, X, i, l):
        if X in G.tset:
            if l != 1 or X not in T:
                return None
            a = action[s].get(X)
            if a is None or a <= 0:
                return None
            return L.W[i][T[X]]
        return nt(s, X, i, l)

    def nt(s, A, i, l):
        k = (s, A, i, l)
        if k in R:
            return R[k]
        if l < minlen[A] or A not in goto.get(s, {}):
            R[k] = None
            return None
        alts = []
        for pidx, r in byl[A]:
            v = path(s, pidx, r, 0, i, l)
            if v is not None:
                alts.append((v, (s, pidx, 0, i, l)))
        ntalts[k] = alts
        R[k] = cnf.OR([v for v, _ in alts])
        return R[k]

    def path(s, pidx, r, k, i, l):
        """from state s, symbols r[k:] derive w[i:i+l], then reduce pidx on the look-ahead"""
        key = (s, pidx, k, i, l)
        if key in P:
            return P[key]
        res = None
        sp = []
        if k == len(r):
            if l == 0:
                res = la_is_reduce(s, i, Tb.pnum_of[pidx])
        else:
            X = r[k]
            mrest = sum(minlen[x] for x in r[k + 1:])
            alts = []
            for l1 in range(minlen[X], l - mrest + 1):
                if X in G.tset and l1 != 1:
                    continue
                a = sym(s, X, i, l1)
                if a is None:
                    continue
                s2 = action[s][X] if X in G.tset else goto[s][X]
                b = path(s2, pidx, r, k + 1, i + l1, l - l1)
                if b is None:
                    continue
                c = cnf.AND(a, b)
                alts.append(c)
                sp.append((c, None if X in G.tset else (s, X, i, l1), (s2, pidx, k + 1, i + l1, l - l1)))
            res = cnf.OR(alts)
        P[key] = res
        splits[key] = sp
        return res

    top = nt(0, start, 0, n)
    s1 = goto[0][start]
    assert action[s1].get('$end') == 0
    if top is None or not want_nodes:
        return top, {}, {}
    root = ('R', (0, start, 0, n))
    edges = defaultdict(list)
    pend = defaultdict(int)
    seen = set()
    stack = [root]
    while stack:
        nd = stack.pop()
        if nd in seen:
            continue
        seen.add(nd)
        typ, key = nd
        if typ == 'R':
            for v, pk in ntalts.get(key, []):
                tgt = ('P', pk)
                edges[nd].append((tgt, v))
                pend[tgt] += 1
                stack.append(tgt)
        else:
            for c, child, nxt in splits.get(key, []):
                if child is not None:
                    tgt = ('R', child)
                    edges[nd].append((tgt, c))
                    pend[tgt] += 1
                    stack.append(tgt)
                tgt = ('P', nxt)
                edges[nd].append((tgt, c))
                pend[tgt] += 1
                stack.append(tgt)
    acc = defaultdict(list)
    acc[root] = [top]
    q = deque([root])
    nodes = defaultdict(list)
    usedp = defaultdict(list)
    while q:
        nd = q.popleft()
        u = cnf.OR(acc[nd])
        typ, key = nd
        if typ == 'P' and key[2] == 0:
            pidx = key[1]
            usedp[(pidx, key[3], key[4])].append(u)
            lab = label_of(pidx) if label_of else None
            if lab:
                nodes[(lab, key[3], key[4])].append(u)
        for tgt, cond in edges.get(nd, []):
            acc[tgt].append(cnf.AND(u, cond))
            pend[tgt] -= 1
            if pend[tgt] == 0:
                q.append(tgt)
    return top, {k: cnf.OR(v) for k, v in nodes.items()}, {k: cnf.OR(v) for k, v in usedp.items()}


# ------------------------------------------------------------------------------------------------ concrete LR run (validation)
def lr_run(Tb, word):
    """plain LR driver over the extracted tables: returns list of (pnum, start, length) reductions or None if rejected"""
    toks = list(word) + ['$end']
    stack = [0]
    spans = []          # start index per symbol on stack
    pos = 0
    reds = []
    while True:
        s = stack[-1]
        a = Tb.action[s].get(toks[pos])
        if a is None:
            return None
        if a > 0:
            stack.append(a)
            spans.append(pos)
            pos += 1
        elif a < 0:
            name, rhs, _, _p = Tb.prods[-a]
            k = len(rhs)
            st = spans[-k] if k else pos
            if k:
                del stack[-k:]
                del spans[-k:]
            reds.append((-a, st, pos - st))
            stack.append(Tb.goto[stack[-1]][name])
            spans.append(st)
        else:
            return reds


def enumerate_accepted(Tb, G, maxlen, terms=None, limit=None):
    """all token strings of length <= maxlen accepted by the tables (DFS over viable prefixes)"""
    terms = terms or Tb.terms
    out = []

    def feed(stack, tok):
        stack = list(stack)
        while True:
            a = Tb.action[stack[-1]].get(tok)
            if a is None:
                return None
            if a > 0:
                stack.append(a)
                return stack
            if a == 0:
                return 'ACCEPT'
            name, rhs = Tb.prods[-a][0], Tb.prods[-a][1]
            if len(rhs):
                del stack[-len(rhs):]
            stack.append(Tb.goto[stack[-1]][name])

    def rec(stack, word):
        if feed(stack, '$end') == 'ACCEPT':
            out.append(tuple(word))
        if len(word) == maxlen or (limit and len(out) >= limit):
            return
        for t in terms:
            st = feed(stack, t)
            if st is not None and st != 'ACCEPT':
                rec(st, word + [t])
    rec([0], [])
    return out
