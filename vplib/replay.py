"""replay of a counterexample against the plain (un-instrumented) package of the scratch copy.
usage: ./check replay <file.json>   -> exit 10 if the violation reproduces, 0 if not"""
import json, sys, os, subprocess, importlib
from . import boot, common


def run_in_subprocess(replay_dict):
    """returns (reproduced: bool, detail: str); runs the replay in a fresh interpreter with the plain package"""
    import tempfile
    fd, p = tempfile.mkstemp(prefix='vp_replay_', suffix='.json')
    with os.fdopen(fd, 'w') as f:
        json.dump(replay_dict, f, default=str)
    env = dict(os.environ)
    env['CALMJS_VERIF_SCRATCH'] = boot.scratch_dir()
    try:
        r = subprocess.run([sys.executable, '-m', 'vplib.replay', p], capture_output=True, text=True, env=env,
                           cwd=common.VERIF, timeout=300)
    finally:
        os.unlink(p)
    out = (r.stdout + r.stderr).strip()
    if r.returncode == 10:
        return True, out[-2000:]
    if r.returncode == 0:
        return False, out[-2000:]
    raise common.HarnessError('replay crashed: %s' % out[-2000:])


def main(path):
    d = json.load(open(path))
    boot.load_plain()
    mod = importlib.import_module('vplib.checks.%s' % d['property'].lower())
    ok, detail = mod.replay(d)
    print(detail)
    if ok:
        print('REPRODUCED property=%s' % d['property'])
        return 10
    print('not reproduced')
    return 0


if __name__ == '__main__':
    sys.exit(main(sys.argv[1]))
