"""Process-shared state of the package under test as a comparable snapshot (used by C15).

`snapshot(prefixes)` walks every loaded module whose name starts with one of the prefixes and returns
{path: digest} for each module global and - for classes defined in those modules - each class attribute: plain data
by value (dict/list/set/tuple recursively, compiled patterns by pattern+flags), functions by identity plus their
defaults, closure cells and function attributes, other objects by type and attribute dictionary.  Two snapshots are
equal iff nothing reachable from module or class level was rebound or mutated in between (objects that only the
current call owns - a Parser, its Lexer, ply's LRParser - are not reachable from there and do not count)."""
import sys, types, re, hashlib

_ATOM = (type(None), bool, int, float, complex, str, bytes)
SKIP_GLOBALS = {'__builtins__', '__loader__', '__spec__', '__cached__', '__file__', '__path__', '__warningregistry__', '__doc__', '__name__', '__package__'}
MAXDEPTH = 14


def _h(s):
    return hashlib.sha1(s.encode('utf-8', 'backslashreplace')).hexdigest()[:16]


def _enc(o, prefixes, stack, depth):
    if isinstance(o, _ATOM):
        r = repr(o)
        return r if len(r) < 80 else 'atom#' + _h(r)
    if depth > MAXDEPTH:
        return '<deep>'
    i = id(o)
    if i in stack:
        return '<cycle>'
    stack.add(i)
    try:
        if isinstance(o, (list, tuple)):
            return type(o).__name__ + '[' + ','.join(_enc(x, prefixes, stack, depth + 1) for x in o) + ']'
        if isinstance(o, dict):
            items = sorted(_enc(k, prefixes, stack, depth + 1) + ':' + _enc(v, prefixes, stack, depth + 1) for k, v in list(o.items()))
            return type(o).__name__ + '{' + ','.join(items) + '}'
        if isinstance(o, (set, frozenset)):
            return type(o).__name__ + '{' + ','.join(sorted(_enc(x, prefixes, stack, depth + 1) for x in o)) + '}'
        if isinstance(o, re.Pattern):
            return 're(%s,%d)' % (_h(o.pattern), o.flags)
        if isinstance(o, types.ModuleType):
            return 'module ' + o.__name__
        if isinstance(o, (staticmethod, classmethod)):
            return type(o).__name__ + '(' + _enc(o.__func__, prefixes, stack, depth + 1) + ')'
        if isinstance(o, property):
            return 'property(' + ','.join(_enc(f, prefixes, stack, depth + 1) for f in (o.fget, o.fset, o.fdel)) + ')'
        if isinstance(o, types.MethodType):
            return 'method(%s of %s@%x)' % (getattr(o.__func__, '__qualname__', '?'), type(o.__self__).__name__, id(o.__self__))
        if isinstance(o, types.FunctionType):
            parts = ['func %s.%s@%x' % (o.__module__, o.__qualname__, id(o.__code__))]
            if o.__defaults__:
                parts.append('d=' + _enc(o.__defaults__, prefixes, stack, depth + 1))
            if o.__kwdefaults__:
                parts.append('k=' + _enc(o.__kwdefaults__, prefixes, stack, depth + 1))
            if o.__closure__:
                cells = []
                for c in o.__closure__:
                    try:
                        cells.append(_enc(c.cell_contents, prefixes, stack, depth + 1))
                    except ValueError:
                        cells.append('<empty cell>')
                parts.append('c=[' + ','.join(cells) + ']')
            if o.__dict__:
                parts.append('a=' + _enc({k: v for k, v in o.__dict__.items() if k != '__wrapped__'}, prefixes, stack, depth + 1))
            if o.__doc__ is not None:
                parts.append('doc=' + _h(o.__doc__))
            return ' '.join(parts)
        if isinstance(o, type):
            mod = getattr(o, '__module__', '') or ''
            if any(mod == p or mod.startswith(p + '.') for p in prefixes):
                # class of the package: attributes are compared one by one at top level (see snapshot); here by name
                return 'class %s.%s' % (mod, o.__qualname__)
            return 'class %s.%s' % (mod, getattr(o, '__qualname__', o.__name__))
        if isinstance(o, (types.BuiltinFunctionType, types.MethodDescriptorType, types.WrapperDescriptorType,
                          types.GetSetDescriptorType, types.MemberDescriptorType)):
            return 'builtin %s' % getattr(o, '__qualname__', repr(o))
        # other instance
        d = getattr(o, '__dict__', None)
        body = ''
        if isinstance(d, dict):
            body = _enc(d, prefixes, stack, depth + 1)
        slots = []
        for k in type(o).__mro__:
            for s in getattr(k, '__slots__', ()) or ():
                if isinstance(s, str) and hasattr(o, s):
                    try:
                        slots.append(s + '=' + _enc(getattr(o, s), prefixes, stack, depth + 1))
                    except Exception:
                        slots.append(s + '=?')
        if d is None and not slots:
            try:
                body = 'repr#' + _h(repr(o))
            except Exception:
                body = '?'
        return 'obj %s.%s(%s%s)' % (type(o).__module__, type(o).__qualname__, body, ';'.join(slots))
    finally:
        stack.discard(i)


def modules(prefixes):
    return sorted(m for m in list(sys.modules) if sys.modules[m] is not None and any(m == p or m.startswith(p + '.') for p in prefixes))


def snapshot(prefixes, allow=()):
    """{path: digest}; `allow`: paths (module.name or module.Class.attr) not compared"""
    prefixes = tuple(prefixes)
    out = {}
    for mn in modules(prefixes):
        mod = sys.modules[mn]
        g = getattr(mod, '__dict__', None)
        if not isinstance(g, dict):
            continue
        out['<module>' + mn] = '1'
        for name, val in list(g.items()):
            if name in SKIP_GLOBALS:
                continue
            path = mn + '.' + name
            if path in allow:
                continue
            out[path] = _h(_enc(val, prefixes, set(), 0))
            if isinstance(val, type) and (getattr(val, '__module__', None) == mn):
                for an, av in list(vars(val).items()):
                    if an in ('__dict__', '__weakref__', '__module__', '__qualname__'):
                        continue
                    p2 = path + '.' + an
                    if p2 in allow:
                        continue
                    out[p2] = _h(_enc(av, prefixes, set(), 0))
    return out


def diff(a, b):
    """paths whose digest differs, appeared or vanished"""
    return sorted(k for k in set(a) | set(b) if a.get(k) != b.get(k))
