"""Action summaries: what node each production's real p_* action builds.

Every action is executed on a real ply YaccProduction whose slots hold sample values obtained by a least
fix-point over the actions themselves (terminals: their spelling; non-terminals: the value some production of
theirs returned).  The result tells, per production, whether a *new* node is built (kind = class name) or a
child / list is passed through.  Used by GX (labelled spans) and by the per-production position checks.
"""
import re
import ply.yacc as yacc
import ply.lex as lex


def spellings(lexer_cls):
    sp = {}
    for name in lexer_cls.tokens:
        pat = getattr(lexer_cls, 't_' + name, None)
        if isinstance(pat, str) and not any(c in pat for c in '[(*?') and name not in ('ID', 'NUMBER', 'STRING', 'REGEX'):
            sp[name] = re.sub(r'\\(.)', r'\1', pat)
    for k, v in lexer_cls.keywords_dict.items():
        sp[v] = k
    sp.update(ID='a', NUMBER='1', STRING="'s'", REGEX='/r/', AUTOSEMI=';', GETPROP='get', SETPROP='set')
    for name, txt in (('LBRACE', '{'), ('RBRACE', '}'), ('PLUS', '+'), ('PLUSPLUS', '++'), ('OR', '||'), ('BOR', '|'),
                      ('CONDOP', '?'), ('MULT', '*'), ('LPAREN', '('), ('RPAREN', ')'), ('LBRACKET', '['), ('RBRACKET', ']'),
                      ('PERIOD', '.'), ('BXOR', '^'), ('PLUSEQUAL', '+='), ('MULTEQUAL', '*='), ('OREQUAL', '|='), ('XOREQUAL', '^=')):
        sp.setdefault(name, txt)
    return sp


class _StubLexer:
    with_comments = False
    lineno = 1
    lexpos = 0

    def lookup_colno(self, lineno, lexpos):
        return lexpos + 1


def run_action(prod, values, positions=None, lexer=None):
    """execute prod.callable on a YaccProduction built from `values` (one per rhs symbol)"""
    syms = [yacc.YaccSymbol()]
    syms[0].type = prod.name
    syms[0].value = None
    for k, (X, v) in enumerate(zip(prod.prod, values), 1):
        if isinstance(v, str) and X.isupper():
            t = lex.LexToken()
            t.type = X
            t.value = v
            t.lexpos, t.lineno = positions[k - 1] if positions else (k * 3, 1)
            syms.append(t)
        else:
            s = yacc.YaccSymbol()
            s.type = X
            s.value = v
            s.lexpos, s.lineno = positions[k - 1] if positions else (k * 3, 1)
            s.endlexpos, s.endlineno = s.lexpos, s.lineno
            syms.append(s)
    p = yacc.YaccProduction(syms, None)
    p.lexer = lexer or _StubLexer()
    p.parser = None
    prod.callable(p)
    return p[0]


def build(rec):
    """fresh value from a recipe (production, [child recipes | terminal spellings])"""
    if isinstance(rec, str):
        return rec
    pr, kids = rec
    return run_action(pr, [build(k) for k in kids])


def recipes(parser_obj):
    """least fix-point: for every non-terminal a recipe whose actions run without error"""
    lr = parser_obj.parser
    sp = spellings(type(parser_obj.lexer))
    rec = {}
    changed = True
    while changed:
        changed = False
        for pr in lr.productions[1:]:
            if pr.name in rec:
                continue
            if not all((X in sp) or (X in rec) for X in pr.prod):
                continue
            cand = (pr, [sp[X] if X in sp else rec[X] for X in pr.prod])
            try:
                build(cand)
            except Exception:
                continue
            rec[pr.name] = cand
            changed = True
    return rec, sp


def summarize(parser_obj):
    """dict ply-production-number -> {'kind': node class name if the action builds a new node else None,
    'passes': 1-based slot index passed through or None, 'value_type': type name, 'error': str if it raised}"""
    from calmjs.parse import asttypes
    lr = parser_obj.parser
    rec, sp = recipes(parser_obj)
    out = {}
    for num, pr in enumerate(lr.productions):
        if num == 0:
            continue
        try:
            vals = [sp[X] if X in sp else build(rec[X]) for X in pr.prod]
            r = run_action(pr, vals)
        except Exception as e:
            out[num] = {'kind': None, 'error': '%s: %s' % (type(e).__name__, e), 'passes': None, 'value_type': None}
            continue
        passes = None
        for k, v in enumerate(vals):
            if r is v and not isinstance(v, str):
                passes = k + 1
        kind = type(r).__name__ if (passes is None and isinstance(r, asttypes.Node)) else None
        out[num] = {'kind': kind, 'passes': passes, 'value_type': type(r).__name__}
    return out, sp, rec
