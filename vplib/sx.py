"""SX - source-instrumented symbolic execution of the real calmjs.parse modules with z3.

The modules of the scratch copy are loaded through an AST rewriter that mediates
Call / Subscript(load) / `in` / (optionally) Set+Dict displays; everything else
runs natively in CPython.  Symbolic values are proxy objects wrapping z3 terms;
every branch on a symbolic condition is decided by z3 (feasibility of each arm),
paths are explored depth-first by re-execution with a recorded decision prefix,
and assertions are discharged per path by asking z3 for a model of
``path-condition AND NOT assertion``.

Nothing is ever silently concretised: a C-level callee that receives a symbolic
argument and has no model raises SXUnsupported, which the harnesses report as
inconclusive (exit 2).
"""
import ast, sys, os, time, types, operator, importlib.abc, importlib.machinery, importlib.util
import z3


class SXUnsupported(Exception):
    pass


class SXBound(Exception):
    """unwinding assertion: decision budget exhausted"""


class SXInfeasible(BaseException):
    """path abandoned (assumption unsatisfiable)"""


# ---------------------------------------------------------------- engine
class Engine:
    def __init__(self, max_decisions=2000, timeout_ms=60000):
        self.solver = z3.Solver()
        self.solver.set('timeout', timeout_ms)
        self.prefix = []
        self.pos = 0
        self.max_decisions = max_decisions
        self.paths = 0
        self.checks = 0
        self.solver_s = 0.0
        self.assertions = 0          # E.check calls
        self.violations = []         # (msg, model dict)
        self.unsupported = []        # messages
        self.bound_hits = 0
        self.reached = 0             # paths that reached at least one assertion
        self._path_reached = False
        self.stop_on_violation = False
        self.path_log = []
        self.errors = []             # python exceptions escaping a path (code under test or oracle)
        self.catch_errors = True
        self.use_cache = False
        self.cache_hits = 0

    # --- low level
    def _check(self, *extra):
        t = time.time()
        self.checks += 1
        if self.use_cache and extra:
            r = self._check_sliced(extra)
            self.solver_s += time.time() - t
            return r
        r = self.solver.check(*extra)
        self.solver_s += time.time() - t
        if r == z3.unknown:
            raise SXUnsupported('solver unknown: %s' % self.solver.reason_unknown())
        return r == z3.sat

    def _slice(self, extra, asserts=None):
        """assertions of the path condition connected (through shared variables) to `extra`"""
        asserts = list(self.solver.assertions()) if asserts is None else asserts
        want = set()
        for e in extra:
            want |= _vars_of(e)
        avars = [_vars_of(a) for a in asserts]
        chosen = [False] * len(asserts)
        changed = bool(want)
        while changed:
            changed = False
            for i, vs in enumerate(avars):
                if not chosen[i] and vs & want:
                    chosen[i] = True
                    if not vs <= want:
                        want |= vs
                        changed = True
        return [a for a, c in zip(asserts, chosen) if c] + list(extra), want

    def _solve_canonical(self, sl):
        """sat/unsat of a set of assertions, cached modulo variable renaming; returns (sat?, {orig var id: value})"""
        order = []
        seen = set()
        for a in sl:
            for v in sorted(_vars_of(a)):
                if v not in seen:
                    seen.add(v)
                    order.append(v)
        subs = [(_VARS[v], z3.Const('cv%d' % i, _VARS[v].sort())) for i, v in enumerate(order)]
        key = '|'.join(sorted(z3.substitute(a, *subs).sexpr() for a in sl)) if subs else '|'.join(sorted(a.sexpr() for a in sl))
        hit = _QCACHE.get(key)
        if hit is None:
            s2 = z3.Solver()
            s2.set('timeout', 60000)
            s2.add(*[z3.substitute(a, *subs) for a in sl] if subs else sl)
            r = s2.check()
            if r == z3.unknown:
                raise SXUnsupported('solver unknown: %s' % s2.reason_unknown())
            vals = None
            if r == z3.sat:
                m = s2.model()
                vals = [m.eval(c, model_completion=True) for _, c in subs]
            hit = _QCACHE[key] = (r == z3.sat, vals)
        else:
            self.cache_hits += 1
        sat, vals = hit
        return sat, ({v: val for v, val in zip(order, vals)} if sat else None)

    def _check_sliced(self, extra):
        """sat(path and extra) decided on the slice of the path condition that shares variables with `extra`
        (the other variable components are satisfiable because the path is feasible); results cached modulo
        renaming of variables, so identical obligations recurring on other structures cost nothing."""
        sl, want = self._slice(extra)
        sat, vals = self._solve_canonical(sl)
        self._last_sliced = vals
        return sat

    def path_model(self):
        """{variable name: z3 value} for the whole path condition, solved one variable component at a time"""
        asserts = list(self.solver.assertions())
        left = list(asserts)
        out = {}
        while left:
            a0 = left[0]
            if not _vars_of(a0):
                left.pop(0)
                continue
            sl, want = self._slice([], None) if False else self._slice_of(a0, left)
            sat, vals = self._solve_canonical(sl)
            if not sat:
                return None
            for v, val in vals.items():
                out[str(_VARS[v])] = val
            ids = {x.get_id() for x in sl}
            left = [x for x in left if x.get_id() not in ids]
        return out

    def _slice_of(self, a0, pool):
        want = set(_vars_of(a0))
        chosen = []
        changed = True
        rest = list(pool)
        while changed:
            changed = False
            nxt = []
            for a in rest:
                vs = _vars_of(a)
                if vs & want:
                    chosen.append(a)
                    if not vs <= want:
                        want |= vs
                    changed = True
                else:
                    nxt.append(a)
            rest = nxt
        return chosen, want

    def assume(self, cond):
        c = _b(cond)
        self.solver.add(c)
        # lazily checked: an infeasible assumption shows up at the next decision

    def assume_checked(self, cond):
        self.solver.add(_b(cond))
        if not self._check():
            raise SXInfeasible()

    def branch(self, cond):
        cond = z3.simplify(cond)
        if z3.is_true(cond):
            return True
        if z3.is_false(cond):
            return False
        return self.choose([cond, z3.Not(cond)]) == 0

    def choose(self, conds):
        """n-way decision among z3 conditions; returns the index taken on this path"""
        if self.pos < len(self.prefix):
            idx, n, feas = self.prefix[self.pos]
            self.pos += 1
            self.solver.add(conds[feas[idx]])
            return feas[idx]
        if len(self.prefix) >= self.max_decisions:
            raise SXBound()
        feas = [i for i, c in enumerate(conds) if self._check(c)]
        if not feas:
            raise SXInfeasible()
        self.prefix.append([0, len(feas), feas])
        self.pos += 1
        self.solver.add(conds[feas[0]])
        return feas[0]

    def pick(self, n, name=None):
        """non-deterministic choice among n alternatives (all feasible)"""
        if self.pos < len(self.prefix):
            idx, _n, feas = self.prefix[self.pos]
            self.pos += 1
            return feas[idx]
        if len(self.prefix) >= self.max_decisions:
            raise SXBound()
        self.prefix.append([0, n, list(range(n))])
        self.pos += 1
        return 0

    def explore(self, fn, on_path=None):
        while True:
            self.solver.reset()
            self.pos = 0
            self._path_reached = False
            try:
                fn()
            except SXInfeasible:
                pass
            except SXUnsupported as e:
                self.unsupported.append(str(e)[:300])
            except SXBound:
                self.bound_hits += 1
            except Exception as e:
                if not self.catch_errors:
                    raise
                import traceback
                self.errors.append('%s: %s | %s' % (type(e).__name__, e, ' <- '.join(
                    '%s:%d' % (os.path.basename(f.filename), f.lineno) for f in traceback.extract_tb(e.__traceback__)[-4:])))
            self.paths += 1
            if self._path_reached:
                self.reached += 1
            if on_path:
                on_path(self)
            if self.stop_on_violation and self.violations:
                break
            while self.prefix and self.prefix[-1][0] + 1 >= self.prefix[-1][1]:
                self.prefix.pop()
            if not self.prefix:
                break
            self.prefix[-1][0] += 1
        return self

    def check(self, cond, msg='', witness=None):
        """assert cond for all values on this path; records a violation with model otherwise"""
        self.assertions += 1
        self._path_reached = True
        if isinstance(cond, SBool):
            c = cond.e
        elif isinstance(cond, bool):
            c = z3.BoolVal(cond)
        elif z3.is_expr(cond):
            c = cond
        else:
            raise TypeError(cond)
        c = z3.simplify(c)
        if z3.is_true(c):
            return True
        if self._check(z3.Not(c)):
            if self.use_cache:
                vals = getattr(self, '_last_sliced', None) or {}
                w = {k: str(v) for k, v in (self.path_model() or {}).items()}     # the rest of the path condition
                w.update({str(_VARS[v]): str(val) for v, val in vals.items()})
                if witness:
                    raise SXUnsupported('custom witness with sliced queries')
            else:
                m = self.solver.model()
                w = witness(m) if witness else {str(d): str(m[d]) for d in m.decls()}
            self.violations.append((msg, w))
            return False
        return True

    def model_eval(self, term):
        return self.solver.model().eval(term, model_completion=True)

    def stats(self):
        return dict(paths=self.paths, reached=self.reached, z3_checks=self.checks, assertions=self.assertions,
                    solver_s=round(self.solver_s, 3), unsupported=len(self.unsupported), bound_hits=self.bound_hits,
                    cache_hits=self.cache_hits,
                    errors=len(self.errors),
                    violations=len(self.violations))


_QCACHE = {}
_VARS = {}
_VMEMO = {}


def _vars_of(e):
    """ids of the uninterpreted constants occurring in a z3 term (memoised per term id)"""
    k = e.get_id()
    r = _VMEMO.get(k)
    if r is not None:
        return r[1]
    out = set()
    stack = [e]
    seen = set()
    while stack:
        x = stack.pop()
        i = x.get_id()
        if i in seen:
            continue
        seen.add(i)
        if z3.is_const(x) and x.decl().kind() == z3.Z3_OP_UNINTERPRETED:
            out.add(i)
            _VARS[i] = x
            continue
        if z3.is_app(x):
            sub = _VMEMO.get(i)
            if sub is not None and x is not e:
                out |= sub[1]
                continue
            stack.extend(x.children())
    _VMEMO[k] = (e, frozenset(out))      # the term is kept alive: z3 recycles AST ids of freed terms
    return _VMEMO[k][1]


E = None


def new_engine(**kw):
    global E
    _VMEMO.clear()
    _VARS.clear()
    E = Engine(**kw)
    return E


# ---------------------------------------------------------------- values
class SBool:
    __slots__ = ('e',)

    def __init__(self, e):
        self.e = e

    def __bool__(self):
        return E.branch(self.e)

    def __and__(self, o):
        return SBool(z3.And(self.e, _b(o)))

    __rand__ = __and__

    def __or__(self, o):
        return SBool(z3.Or(self.e, _b(o)))

    __ror__ = __or__

    def __invert__(self):
        return SBool(z3.Not(self.e))

    def __eq__(self, o):
        return SBool(self.e == _b(o))

    def __ne__(self, o):
        return SBool(self.e != _b(o))

    def __hash__(self):
        raise SXUnsupported('hash of symbolic bool')

    def __repr__(self):
        return 'SBool(%s)' % self.e


def _b(x):
    if isinstance(x, SBool):
        return x.e
    if z3.is_expr(x):
        return x
    return z3.BoolVal(bool(x))


class SInt:
    """symbolic Python int as a bit-vector; + - * << carry no-overflow obligations so the BV
    result equals Python's unbounded result (otherwise SXUnsupported: outside the bound)"""
    __slots__ = ('e',)

    def __init__(self, e):
        self.e = e

    @property
    def w(self):
        return self.e.size()

    def lift(self, x):
        if isinstance(x, SIntZ):
            return None
        if isinstance(x, SInt):
            if x.e.size() != self.e.size():
                raise SXUnsupported('mixed widths')
            return x.e
        if isinstance(x, bool):
            return z3.BitVecVal(int(x), self.w)
        if isinstance(x, int):
            if not -(1 << (self.w - 1)) <= x < (1 << (self.w - 1)):
                raise SXUnsupported('const too wide')
            return z3.BitVecVal(x, self.w)
        return None

    def _bin(self, o, f, ovf=None, rev=False):
        b = self.lift(o)
        if b is None:
            return NotImplemented
        a = self.e
        if rev:
            a, b = b, a
        if ovf is not None:
            for c in ovf(a, b):
                if E._check(z3.Not(c)):
                    raise SXUnsupported('int overflow beyond BV%d bound' % self.w)
        return SInt(z3.simplify(f(a, b)))

    _add_ovf = staticmethod(lambda a, b: [z3.BVAddNoOverflow(a, b, True), z3.BVAddNoUnderflow(a, b)])
    _sub_ovf = staticmethod(lambda a, b: [z3.BVSubNoOverflow(a, b), z3.BVSubNoUnderflow(a, b, True)])
    _mul_ovf = staticmethod(lambda a, b: [z3.BVMulNoOverflow(a, b, True), z3.BVMulNoUnderflow(a, b)])

    def __add__(s, o): return s._bin(o, operator.add, s._add_ovf)
    def __radd__(s, o): return s._bin(o, operator.add, s._add_ovf, True)
    def __sub__(s, o): return s._bin(o, operator.sub, s._sub_ovf)
    def __rsub__(s, o): return s._bin(o, operator.sub, s._sub_ovf, True)
    def __mul__(s, o): return s._bin(o, operator.mul, s._mul_ovf)
    __rmul__ = __mul__

    def __neg__(s):
        if E._check(s.e == z3.BitVecVal(-(1 << (s.w - 1)), s.w)):
            raise SXUnsupported('neg overflow')
        return SInt(z3.simplify(-s.e))

    def __and__(s, o): return s._bin(o, operator.and_)
    __rand__ = __and__
    def __or__(s, o): return s._bin(o, operator.or_)
    __ror__ = __or__
    def __xor__(s, o): return s._bin(o, operator.xor)
    __rxor__ = __xor__

    def __lshift__(s, o):
        if not isinstance(o, int) or o < 0:
            raise SXUnsupported('symbolic shift amount')
        if o >= s.w:
            raise SXUnsupported('shift beyond BV%d bound' % s.w)
        r = s.e << o
        if E._check((r >> o) != s.e):           # bits lost: Python's unbounded result would differ
            raise SXUnsupported('int overflow beyond BV%d bound' % s.w)
        return SInt(z3.simplify(r))

    def __rshift__(s, o):
        if not isinstance(o, int):
            raise SXUnsupported('symbolic shift amount')
        return SInt(z3.simplify(s.e >> o))   # arithmetic shift == floor division, like Python

    def _cmp(s, o, f):
        b = s.lift(o)
        if b is None:
            return NotImplemented
        return SBool(z3.simplify(f(s.e, b)))

    def __eq__(s, o):
        r = s._cmp(o, operator.eq)
        return SBool(z3.BoolVal(False)) if r is NotImplemented else r

    def __ne__(s, o):
        r = s._cmp(o, operator.ne)
        return SBool(z3.BoolVal(True)) if r is NotImplemented else r

    def __lt__(s, o): return s._cmp(o, operator.lt)
    def __le__(s, o): return s._cmp(o, operator.le)
    def __gt__(s, o): return s._cmp(o, operator.gt)
    def __ge__(s, o): return s._cmp(o, operator.ge)
    def __bool__(s): return E.branch(s.e != 0)

    def bit_length(s):
        """exact: forks over the (finitely many) feasible bit lengths and returns a concrete int"""
        mag = z3.If(s.e < 0, -s.e, s.e)
        conds = [mag == 0] + [z3.And(z3.UGE(mag, z3.BitVecVal(1 << (k - 1), s.w)),
                                     z3.ULT(mag, z3.BitVecVal(1 << k, s.w)) if k < s.w else z3.BoolVal(True))
                              for k in range(1, s.w + 1)]
        return E.choose(conds)

    def __hash__(s): raise SXUnsupported('hash of symbolic int')
    def __index__(s): raise SXUnsupported('__index__ of symbolic int')
    def __int__(s): raise SXUnsupported('int() of symbolic int')
    def __str__(s): raise SXUnsupported('str() of symbolic int')
    def __format__(s, f): raise SXUnsupported('format of symbolic int')
    def __repr__(s): return 'SInt(%s)' % s.e


class SIntZ(SInt):
    """symbolic Python int as a z3 Int (unbounded; linear arithmetic only)"""
    __slots__ = ()

    def lift(self, x):
        return SIntZ.lift_(x)

    @staticmethod
    def lift_(x):
        if isinstance(x, SIntZ):
            return x.e
        if isinstance(x, SInt):
            return None
        if isinstance(x, bool):
            return z3.IntVal(int(x))
        if isinstance(x, int):
            return z3.IntVal(x)
        return None

    def _bin(self, o, f, ovf=None, rev=False):
        b = SIntZ.lift_(o)
        if b is None:
            return NotImplemented
        a = self.e
        if rev:
            a, b = b, a
        return SIntZ(z3.simplify(f(a, b)))

    def __neg__(s): return SIntZ(z3.simplify(-s.e))

    def __mul__(s, o):
        if isinstance(o, int) and not isinstance(o, SInt):
            return SIntZ(z3.simplify(s.e * o))
        raise SXUnsupported('nonlinear mul')

    __rmul__ = __mul__

    def __floordiv__(s, o):
        if isinstance(o, int) and o > 0:
            return SIntZ(z3.simplify(s.e / o))     # z3 Int div = floor for positive divisor
        raise SXUnsupported('div')

    def __mod__(s, o):
        if isinstance(o, int) and o > 0:
            return SIntZ(z3.simplify(s.e % o))
        raise SXUnsupported('mod')

    def __and__(s, o): raise SXUnsupported('bitop on Int')
    __or__ = __xor__ = __rand__ = __ror__ = __rxor__ = __and__
    def __lshift__(s, o): raise SXUnsupported('shift on Int')
    __rshift__ = __lshift__
    def __repr__(s): return 'SIntZ(%s)' % s.e


def zint(x):
    """z3 Int term of a python int / SIntZ"""
    r = SIntZ.lift_(x)
    if r is None:
        raise SXUnsupported('not an int: %r' % (x,))
    return r


class SEnum:
    """finite-domain symbolic value over a list of concrete python values (compared with ==)"""
    __slots__ = ('e', 'vals')

    def __init__(self, e, vals):
        self.e = e
        self.vals = list(vals)

    @staticmethod
    def fresh(name, vals):
        v = z3.Int(name)
        E.solver.add(v >= 0, v < len(vals))
        return SEnum(v, vals)

    def _eq(self, o):
        if isinstance(o, SEnum):
            alts = [z3.And(self.e == i, o.e == j) for i, a in enumerate(self.vals) for j, b in enumerate(o.vals) if a == b]
            return SBool(z3.Or(alts) if alts else z3.BoolVal(False))
        idx = [i for i, a in enumerate(self.vals) if a == o and type(a) == type(o)]
        return SBool(z3.Or([self.e == i for i in idx]) if idx else z3.BoolVal(False))

    def __eq__(self, o): return self._eq(o)
    def __ne__(self, o): return ~self._eq(o)
    def __hash__(self): raise SXUnsupported('hash of SEnum')

    def concretize(self):
        """fork on the value"""
        i = E.choose([self.e == k for k in range(len(self.vals))])
        return self.vals[i]

    def _ord(self, o, f):
        if isinstance(o, SEnum):
            alts = [z3.And(self.e == i, o.e == j) for i, a in enumerate(self.vals) for j, b in enumerate(o.vals) if f(a, b)]
        else:
            alts = [self.e == i for i, a in enumerate(self.vals) if f(a, o)]
        return SBool(z3.Or(alts) if alts else z3.BoolVal(False))

    def __lt__(self, o): return self._ord(o, operator.lt)
    def __le__(self, o): return self._ord(o, operator.le)
    def __gt__(self, o): return self._ord(o, operator.gt)
    def __ge__(self, o): return self._ord(o, operator.ge)
    def __str__(self): raise SXUnsupported('str() of SEnum')
    def __repr__(self): return 'SEnum(%s)' % self.e


class SStr:
    """string of concrete length whose chars are concrete 1-char strs or SInt code points (BV)"""
    __slots__ = ('cs',)

    def __init__(self, cs):
        self.cs = list(cs)

    def __len__(s): return len(s.cs)
    def __iter__(s): return (SStr([c]) for c in s.cs)
    def __add__(s, o):
        oc = _chars(o)
        if oc is None: return NotImplemented
        return SStr(s.cs + oc)
    def __radd__(s, o):
        oc = _chars(o)
        if oc is None: return NotImplemented
        return SStr(oc + s.cs)

    def __getitem__(s, i):
        if isinstance(i, slice):
            return SStr(s.cs[i])
        return SStr([s.cs[i]])

    def __eq__(s, o):
        oc = _chars(o)
        if oc is None or len(oc) != len(s.cs):
            return False
        return SBool(z3.And([_code(a, b) for a, b in zip(s.cs, oc)] or [z3.BoolVal(True)]))

    def __ne__(s, o):
        r = s.__eq__(o)
        return (not r) if isinstance(r, bool) else ~r

    def split(s, sep=None, maxsplit=-1):
        if not isinstance(sep, str) or len(sep) != 1 or maxsplit != -1:
            raise SXUnsupported('SStr.split(%r)' % (sep,))
        out = [[]]
        for c in s.cs:
            hit = (c == sep) if isinstance(c, str) else bool(SBool(_code(c, sep)))
            if hit:
                out.append([])
            else:
                out[-1].append(c)
        return [(''.join(p) if all(isinstance(c, str) for c in p) else SStr(p)) for p in out]

    def __bool__(s): return bool(s.cs)
    def __hash__(s): raise SXUnsupported('hash of symbolic str')
    def __str__(s): raise SXUnsupported('str() of SStr')
    def __repr__(s): return 'SStr(%r)' % (s.cs,)


def _chars(o):
    if isinstance(o, SStr):
        return o.cs
    if isinstance(o, str):
        return list(o)
    return None


def _code(a, b):
    """z3 equality of two chars each either a concrete 1-char str or an SInt code point"""
    if isinstance(a, str) and isinstance(b, str):
        return z3.BoolVal(a == b)
    if isinstance(a, str):
        a, b = b, a
    if isinstance(b, str):
        return a.e == z3.BitVecVal(ord(b), a.e.size()) if z3.is_bv(a.e) else a.e == ord(b)
    return a.e == b.e


class SZ3Str:
    """z3 String proxy"""
    __slots__ = ('e',)

    def __init__(self, e):
        self.e = z3.StringVal(e) if isinstance(e, str) else e

    @staticmethod
    def lift(x):
        if isinstance(x, SZ3Str):
            return x.e
        if isinstance(x, str):
            return z3.StringVal(x)
        return None

    def __getitem__(s, i):
        n = z3.Length(s.e)
        if isinstance(i, slice):
            a, b, st = i.start, i.stop, i.step
            if st is not None:
                raise SXUnsupported('slice step')
            if a is None and isinstance(b, int) and b >= 0:
                return SZ3Str(z3.SubString(s.e, 0, b))
            if b is None and isinstance(a, int) and a < 0:
                return SZ3Str(z3.If(n >= -a, z3.SubString(s.e, n + a, -a), s.e))
            if b is None and isinstance(a, int) and a >= 0:
                return SZ3Str(z3.SubString(s.e, a, n))
            raise SXUnsupported('slice %r' % (i,))
        if isinstance(i, int):
            if i >= 0:
                if not SBool(n > i):
                    raise IndexError('string index out of range')
                return SZ3Str(z3.SubString(s.e, i, 1))
            if not SBool(n >= -i):
                raise IndexError('string index out of range')
            return SZ3Str(z3.SubString(s.e, n + i, 1))
        raise SXUnsupported('index %r' % (i,))

    def __add__(s, o):
        b = SZ3Str.lift(o)
        if b is None: return NotImplemented
        return SZ3Str(z3.Concat(s.e, b))

    def __radd__(s, o):
        b = SZ3Str.lift(o)
        if b is None: return NotImplemented
        return SZ3Str(z3.Concat(b, s.e))

    def __eq__(s, o):
        b = SZ3Str.lift(o)
        if b is None: return False
        if s.e.eq(b): return True
        if isinstance(o, str):
            f = LEAF_FILTERS.get(s.e.get_id())
            if f is not None and not f(o):
                return False          # o is outside the language the variable is constrained to: refuted without a query
        return SBool(s.e == b)

    def __ne__(s, o):
        r = s.__eq__(o)
        if isinstance(r, bool):
            return not r
        return ~r

    def __lt__(s, o): return SBool(s.e < SZ3Str.lift(o))
    def __gt__(s, o): return SBool(SZ3Str.lift(o) < s.e)
    def __le__(s, o): return SBool(z3.Or(s.e < SZ3Str.lift(o), s.e == SZ3Str.lift(o)))
    def __ge__(s, o): return SBool(z3.Or(SZ3Str.lift(o) < s.e, s.e == SZ3Str.lift(o)))
    def __len__(s): raise SXUnsupported('len() of SZ3Str via C protocol (use mediated len)')
    def __hash__(s): raise SXUnsupported('hash of symbolic str')
    def __bool__(s): return E.branch(z3.Length(s.e) > 0)
    def __str__(s): raise SXUnsupported('str() of SZ3Str')
    def __format__(s, f): raise SXUnsupported('format of SZ3Str')
    def __repr__(s): return 'SZ3Str(%s)' % s.e
    def __iter__(s): raise SXUnsupported('iteration over SZ3Str')


LEAF_FILTERS = {}      # z3 var id -> concrete membership predicate of the language the var is constrained to
SYM_TYPES = (SInt, SBool, SStr, SZ3Str, SEnum)
_extra_sym = []


def register_symbolic(cls):
    global SYM_TYPES
    SYM_TYPES = SYM_TYPES + (cls,)


def is_sym(x):
    return isinstance(x, SYM_TYPES)


# ---------------------------------------------------------------- symbolic-key containers
def _eq(a, b):
    if a is b:
        return True
    r = (a == b)
    return r if isinstance(r, bool) else bool(r)     # forks when symbolic


class SymDict:
    def __init__(self, items=()):
        self._it = []
        if isinstance(items, (SymDict, dict)):
            items = items.items()
        for k, v in items:
            self[k] = v

    def _find(self, k):
        for idx, (kk, v) in enumerate(self._it):
            if _eq(kk, k):
                return idx
        return -1

    def __setitem__(self, k, v):
        i = self._find(k)
        if i < 0:
            self._it.append([k, v])
        else:
            self._it[i][1] = v

    def __getitem__(self, k):
        i = self._find(k)
        if i < 0:
            raise KeyError(k)
        return self._it[i][1]

    def get(self, k, d=None):
        i = self._find(k)
        return d if i < 0 else self._it[i][1]

    def __contains__(self, k): return self._find(k) >= 0
    def __iter__(self): return iter([k for k, _ in self._it])
    def items(self): return [(k, v) for k, v in self._it]
    def keys(self): return [k for k, _ in self._it]
    def values(self): return [v for _, v in self._it]

    def update(self, o):
        for k, v in (o.items() if hasattr(o, 'items') else o):
            self[k] = v

    def __len__(self): return len(self._it)
    def __bool__(self): return bool(self._it)

    def pop(self, k, *d):
        i = self._find(k)
        if i < 0:
            if d:
                return d[0]
            raise KeyError(k)
        return self._it.pop(i)[1]

    def setdefault(self, k, d=None):
        i = self._find(k)
        if i < 0:
            self._it.append([k, d])
            return d
        return self._it[i][1]

    def __delitem__(self, k):
        i = self._find(k)
        if i < 0:
            raise KeyError(k)
        self._it.pop(i)

    def copy(self): return SymDict(self.items())


class SymSet:
    def __init__(self, items=()):
        self._it = []
        for x in items:
            self.add(x)

    def add(self, x):
        if not self.__contains__(x):
            self._it.append(x)

    def discard(self, x):
        self._it = [y for y in self._it if not _eq(y, x)]

    def remove(self, x):
        if x not in self:
            raise KeyError(x)
        self.discard(x)

    def update(self, *others):
        for o in others:
            for x in o:
                self.add(x)

    def __contains__(self, x):
        for y in self._it:
            if _eq(y, x):
                return True
        return False

    def __iter__(self): return iter(list(self._it))
    def __len__(self): return len(self._it)
    def __bool__(self): return bool(self._it)
    def __or__(self, o): return SymSet(list(self._it) + list(o))
    __ror__ = __or__
    def union(self, *o):
        r = SymSet(self._it)
        r.update(*o)
        return r

    def __ior__(self, o):
        for x in o:
            self.add(x)
        return self

    def __sub__(self, o):
        o = o if isinstance(o, SymSet) else SymSet(o)
        return SymSet([x for x in self._it if x not in o])

    def difference(self, o): return self.__sub__(o)
    def __rsub__(self, o): return SymSet([x for x in o if x not in self])

    def __and__(self, o):
        o = o if isinstance(o, SymSet) else SymSet(o)
        return SymSet([x for x in self._it if x in o])

    __rand__ = __and__
    def copy(self): return SymSet(self._it)


# ---------------------------------------------------------------- mediated operations
MODELS = {}
METHOD_MODELS = {}
PASS_THROUGH = {next, tuple, list, iter, enumerate, zip, reversed, sorted, getattr, setattr, hasattr, callable,
                type, id, repr, min, max, any, all, map, filter, range, super, vars, dict, set, frozenset, sum}
SYMBOLIC_CONTAINERS = False


def _any_sym(a, k):
    for x in a:
        if isinstance(x, SYM_TYPES):
            return True
    for x in k.values():
        if isinstance(x, SYM_TYPES):
            return True
    return False


class RT:
    @staticmethod
    def call(f, *a, **k):
        if f is isinstance:
            return m_isinstance(*a)
        if not _any_sym(a, k):
            slf = getattr(f, '__self__', None)
            if slf is None or not isinstance(slf, SYM_TYPES + (str,)):
                if SYMBOLIC_CONTAINERS:
                    if f is set:
                        return SymSet(*a)
                    if f is dict and not k:
                        return SymDict(*a)
                if (f is set or f is frozenset) and a and isinstance(a[0], (list, tuple, SymSet)) and \
                        (isinstance(a[0], SymSet) or any(isinstance(x, SYM_TYPES) for x in a[0])):
                    return SymSet(a[0])
                return f(*a, **k)
            if isinstance(slf, str):
                if f.__name__ == 'join':
                    return m_join(slf, *a)
                return f(*a, **k)
        m = MODELS.get(f)
        if m is not None:
            return m(*a, **k)
        slf = getattr(f, '__self__', None)
        if slf is not None and not isinstance(slf, types.ModuleType):
            mm = METHOD_MODELS.get((type(slf), f.__name__))
            if mm is not None:
                return mm(slf, *a, **k)
            if isinstance(slf, (list, dict, set)) and f.__name__ in (
                    'append', 'extend', 'insert', 'update', 'setdefault', 'pop', 'get', 'index', 'count'):
                if isinstance(slf, (dict, set)) and f.__name__ in ('setdefault', 'get', 'pop', 'update'):
                    if a and isinstance(a[0], SYM_TYPES):
                        return _dict_method(slf, f.__name__, *a)
                return f(*a, **k)
            if isinstance(slf, set) and f.__name__ == 'add':
                raise SXUnsupported('set.add of symbolic value')
        if f in PASS_THROUGH:
            return f(*a, **k)
        if isinstance(f, (types.FunctionType, types.MethodType, type, types.LambdaType)) or hasattr(f, '__sx_ok__'):
            return f(*a, **k)
        if isinstance(f, types.BuiltinFunctionType) and isinstance(getattr(f, '__self__', None), (SymDict, SymSet)):
            return f(*a, **k)
        if callable(f) and type(f).__module__ not in ('builtins',):
            return f(*a, **k)      # instances with python __call__ (rule objects, functools.partial of python fns)
        raise SXUnsupported('call %r with symbolic args' % (f,))

    @staticmethod
    def getitem(o, i):
        if isinstance(i, SYM_TYPES):
            return sym_getitem(o, i)
        return o[i]

    @staticmethod
    def contains(c, x):
        if isinstance(x, SYM_TYPES):
            return sym_contains(c, x)
        if isinstance(c, SYM_TYPES):
            return sym_contains(c, x)
        return x in c

    @staticmethod
    def mkdict(keys, values, force=False):
        if force or any(isinstance(k, SYM_TYPES) for k in keys):
            return SymDict(zip(keys, values))
        return dict(zip(keys, values))

    @staticmethod
    def mkset(items, force=False):
        items = list(items)
        if force or any(isinstance(k, SYM_TYPES) for k in items):
            return SymSet(items)
        return set(items)

    @staticmethod
    def mkdict_pairs(pairs, force=False):
        pairs = list(pairs)
        if force or any(isinstance(k, SYM_TYPES) for k, _ in pairs):
            return SymDict(pairs)
        return dict(pairs)


def _dict_method(d, name, k, *rest):
    # dict keyed by concrete values, symbolic key: fork over equal keys
    for kk in list(d):
        if _eq(kk, k):
            return getattr(d, name)(kk, *rest)
    if name == 'get':
        return rest[0] if rest else None
    if name == 'pop':
        if rest:
            return rest[0]
        raise KeyError(k)
    raise SXUnsupported('dict.%s with new symbolic key' % name)


def sym_getitem(o, i):
    if isinstance(o, (SymDict,)):
        return o[i]
    if isinstance(i, SInt):
        if isinstance(o, (str, list, tuple)):
            n = len(o)
            zero = 0
            inr = (i >= zero) & (i < n)
            if not inr:
                neg = (i < zero) & (i >= -n)
                if neg:
                    raise SXUnsupported('negative symbolic index')
                raise IndexError('index out of range (symbolic)')
            if isinstance(o, str):
                vals = [ord(x) for x in o]
            else:
                vals = list(o)
            if not all(isinstance(v, int) for v in vals):
                raise SXUnsupported('table of non-ints')
            mk = (lambda v: z3.IntVal(v)) if isinstance(i, SIntZ) else (lambda v: z3.BitVecVal(v, i.w))
            r = mk(vals[-1])
            for j in range(n - 2, -1, -1):
                r = z3.If(i.e == (j if isinstance(i, SIntZ) else z3.BitVecVal(j, i.w)), mk(vals[j]), r)
            cls = SIntZ if isinstance(i, SIntZ) else SInt
            return SStr([cls(r)]) if isinstance(o, str) else cls(r)
        if type(o).__module__ != 'builtins':
            return o[i]
        raise SXUnsupported('symbolic index into %s' % type(o))
    if isinstance(o, dict):
        if isinstance(i, SStr) and len(i.cs) == 1 and all(isinstance(k, str) and len(k) == 1 for k in o) \
                and all(isinstance(v, int) for v in o.values()) and isinstance(i.cs[0], SInt):
            c = i.cs[0]
            present = SBool(z3.Or([_code(c, k) for k in o]))
            if not present:
                raise KeyError(i)
            items = list(o.items())
            mk = (lambda v: z3.IntVal(v)) if isinstance(c, SIntZ) else (lambda v: z3.BitVecVal(v, c.w))
            r = mk(items[-1][1])
            for k, v in items[:-1][::-1]:
                r = z3.If(_code(c, k), mk(v), r)
            return (SIntZ if isinstance(c, SIntZ) else SInt)(r)
        for kk in list(o):
            if _eq(kk, i):
                return o[kk]
        raise KeyError(i)
    if type(o).__module__ != 'builtins':
        return o[i]
    raise SXUnsupported('getitem %s[%s]' % (type(o).__name__, type(i).__name__))


def sym_contains(c, x):
    if isinstance(c, (SymDict, SymSet)):
        return x in c
    if isinstance(x, SZ3Str) and isinstance(c, str):
        # substring test  x in 'literal'
        subs = sorted({c[i:j] for i in range(len(c) + 1) for j in range(i, len(c) + 1)})
        return SBool(z3.Or([x.e == z3.StringVal(y) for y in subs]))
    if isinstance(c, (tuple, list, set, frozenset, dict)):
        if isinstance(x, SZ3Str) and all(isinstance(y, str) or y is None for y in c):
            f = LEAF_FILTERS.get(x.e.get_id())
            cand = [y for y in c if isinstance(y, str) and (f is None or f(y))]
            if not cand:
                return False
            return bool(SBool(z3.Or([x.e == z3.StringVal(y) for y in cand])))
        for y in c:
            if _eq(x, y):
                return True
        return False
    if isinstance(c, str) and isinstance(x, SStr) and len(x.cs) == 1:
        return SBool(z3.Or([_code(x.cs[0], ch) for ch in c] or [z3.BoolVal(False)]))
    if type(c).__module__ != 'builtins':
        return x in c
    raise SXUnsupported('%s in %s' % (type(x).__name__, type(c).__name__))


def m_join(sep, it):
    parts = list(it)
    if any(isinstance(p, SZ3Str) for p in parts) or isinstance(sep, SZ3Str):
        out = None
        for n, p in enumerate(parts):
            e = SZ3Str.lift(p)
            if e is None:
                raise SXUnsupported('join of %r' % type(p))
            if out is None:
                out = e
            else:
                out = z3.Concat(out, SZ3Str.lift(sep), e) if sep != '' else z3.Concat(out, e)
        return SZ3Str(out if out is not None else z3.StringVal(''))
    out = []
    for n, x in enumerate(parts):
        if n:
            out += list(sep)
        cs = _chars(x)
        if cs is None:
            raise TypeError('sequence item: expected str')
        out += cs
    if all(isinstance(c, str) for c in out):
        return ''.join(out)
    return SStr(out)


def m_len(x):
    if isinstance(x, SZ3Str):
        return SIntZ(z3.Length(x.e))
    return len(x)


def m_isinstance(o, c):
    if isinstance(o, SYM_TYPES):
        cs = c if isinstance(c, tuple) else (c,)
        if isinstance(o, SInt):
            return int in cs or object in cs
        if isinstance(o, (SStr, SZ3Str)):
            return str in cs or object in cs
        if isinstance(o, SBool):
            return bool in cs or int in cs
        if isinstance(o, SEnum):
            ts = {type(v) for v in o.vals}
            if len(ts) == 1:
                return issubclass(ts.pop(), cs)
            return isinstance(o.concretize(), c)
    return isinstance(o, c)


MODELS[len] = m_len
MODELS[isinstance] = m_isinstance
METHOD_MODELS[(str, 'join')] = m_join


def m_min(*a, **k):
    if len(a) == 1:
        a = tuple(a[0])
    r = a[0]
    for x in a[1:]:
        if x < r:
            r = x
    return r


def m_max(*a, **k):
    if len(a) == 1:
        a = tuple(a[0])
    r = a[0]
    for x in a[1:]:
        if x > r:
            r = x
    return r


MODELS[min] = m_min
MODELS[max] = m_max


def m_bool(x=False):
    return bool(x)


MODELS[bool] = m_bool


# ---------------------------------------------------------------- instrumentation
def _rt(attr):
    return ast.Attribute(value=ast.Name(id='__sx__', ctx=ast.Load()), attr=attr, ctx=ast.Load())


class Tr(ast.NodeTransformer):
    def __init__(self, symbolic_containers=False):
        self.symbolic_containers = symbolic_containers

    def visit_Call(self, n):
        self.generic_visit(n)
        if isinstance(n.func, ast.Name) and n.func.id in ('super', 'locals', 'globals', 'vars'):
            return n
        if any(isinstance(a, ast.Starred) for a in n.args) or any(k.arg is None for k in n.keywords):
            return ast.copy_location(ast.Call(func=_rt('call'), args=[n.func] + n.args, keywords=n.keywords), n)
        return ast.copy_location(ast.Call(func=_rt('call'), args=[n.func] + n.args, keywords=n.keywords), n)

    def visit_Subscript(self, n):
        self.generic_visit(n)
        if isinstance(n.ctx, ast.Load):
            return ast.copy_location(ast.Call(func=_rt('getitem'), args=[n.value, n.slice], keywords=[]), n)
        return n

    def visit_Compare(self, n):
        self.generic_visit(n)
        if len(n.ops) == 1 and isinstance(n.ops[0], (ast.In, ast.NotIn)):
            c = ast.Call(func=_rt('contains'), args=[n.comparators[0], n.left], keywords=[])
            if isinstance(n.ops[0], ast.NotIn):
                c = ast.UnaryOp(op=ast.Not(), operand=c)
            return ast.copy_location(c, n)
        return n

    def _force(self):
        return [ast.keyword(arg='force', value=ast.Constant(value=bool(self.symbolic_containers)))]

    def visit_Dict(self, n):
        self.generic_visit(n)
        if any(k is None for k in n.keys) or not n.keys:
            if not n.keys and self.symbolic_containers:
                return ast.copy_location(ast.Call(func=_rt('mkdict'), args=[ast.List(elts=[], ctx=ast.Load()), ast.List(elts=[], ctx=ast.Load())], keywords=self._force()), n)
            return n
        return ast.copy_location(ast.Call(func=_rt('mkdict'), args=[ast.List(elts=n.keys, ctx=ast.Load()),
                                                                    ast.List(elts=n.values, ctx=ast.Load())], keywords=self._force()), n)

    def visit_Set(self, n):
        self.generic_visit(n)
        return ast.copy_location(ast.Call(func=_rt('mkset'), args=[ast.List(elts=n.elts, ctx=ast.Load())], keywords=self._force()), n)

    def visit_SetComp(self, n):
        self.generic_visit(n)
        return ast.copy_location(ast.Call(func=_rt('mkset'), args=[ast.ListComp(elt=n.elt, generators=n.generators)], keywords=self._force()), n)

    def visit_DictComp(self, n):
        self.generic_visit(n)
        lc = ast.ListComp(elt=ast.Tuple(elts=[n.key, n.value], ctx=ast.Load()), generators=n.generators)
        return ast.copy_location(ast.Call(func=_rt('mkdict_pairs'), args=[lc], keywords=self._force()), n)


class Loader(importlib.machinery.SourceFileLoader):
    symbolic_modules = ()

    def source_to_code(self, data, path, *, _optimize=-1):
        tr = Tr(symbolic_containers=any(str(path).endswith(m) for m in self.symbolic_modules))
        tree = tr.visit(ast.parse(data, path))
        ast.fix_missing_locations(tree)
        return compile(tree, path, 'exec', dont_inherit=True, optimize=_optimize)

    def exec_module(self, module):
        module.__dict__['__sx__'] = RT
        module.__dict__['__sx_symdict__'] = SymDict
        super().exec_module(module)

    def get_code(self, fullname):   # bypass .pyc cache
        path = self.get_filename(fullname)
        return self.source_to_code(self.get_data(path), path)


class Finder(importlib.abc.MetaPathFinder):
    def __init__(self, root, prefixes, exclude=()):
        self.root = root
        self.prefixes = prefixes
        self.exclude = exclude

    def find_spec(self, fullname, path, target=None):
        if not any(fullname == p or fullname.startswith(p + '.') for p in self.prefixes):
            return None
        if any(fullname == p or fullname.startswith(p + '.') for p in self.exclude):
            return None
        parts = fullname.split('.')
        base = os.path.join(self.root, *parts)
        if os.path.isdir(base):
            init = os.path.join(base, '__init__.py')
            if os.path.exists(init):
                return importlib.util.spec_from_file_location(fullname, init, loader=Loader(fullname, init),
                                                              submodule_search_locations=[base])
            spec = importlib.machinery.ModuleSpec(fullname, None, is_package=True)
            spec.submodule_search_locations = [base]
            return spec
        if os.path.exists(base + '.py'):
            return importlib.util.spec_from_file_location(fullname, base + '.py', loader=Loader(fullname, base + '.py'))
        return None


_installed = None


def install(root, prefixes=('calmjs.parse',), symbolic_modules=()):
    """load calmjs.parse from <root> through the instrumenting loader"""
    global _installed, SYMBOLIC_CONTAINERS
    for m in list(sys.modules):
        if any(m == p or m.startswith(p + '.') for p in prefixes):
            del sys.modules[m]
    if _installed is not None:
        sys.meta_path.remove(_installed)
    Loader.symbolic_modules = tuple(symbolic_modules)
    import calmjs
    calmjs.__path__ = [os.path.join(root, 'calmjs')]
    _installed = Finder(root, list(prefixes))
    sys.meta_path.insert(0, _installed)
    import calmjs.parse
    assert hasattr(calmjs.parse, '__sx__'), 'instrumentation not active'
    assert calmjs.parse.__file__.startswith(root)


def load_instrumented():
    from . import boot
    src = boot.scratch_dir()
    install(src)
    return src
