"""evidence, known findings, replay files, exit codes"""
import json, os, sys, time, hashlib

VERIF = os.path.dirname(os.path.dirname(os.path.abspath(__file__)))
EXIT_OK, EXIT_VIOLATION, EXIT_HARNESS = 0, 1, 2


class HarnessError(Exception):
    """the check itself is inconclusive/broken (never reported as a violation)"""


def known_findings():
    p = os.path.join(VERIF, 'known_findings.json')
    if not os.path.exists(p):
        return {'findings': [], 'fixed': []}
    return json.load(open(p))


class Run:
    def __init__(self, pid, level, tier=None):
        self.pid = pid
        self.level = level
        self.tier = tier or os.environ.get('VERIF_TIER', 'quick')
        if self.tier not in ('quick', 'thorough'):
            self.tier = 'quick'
        self.seed = int(os.environ.get('VERIF_SEED', '0') or 0)
        self.t0 = time.time()
        self.coverage = {}
        self.assumptions = []
        self.violations = []       # (key, what, replay dict)
        self.known_hit = {}        # key -> what
        self.inconclusive = []
        self.known = [f for f in known_findings().get('findings', []) if f['property'] == pid]
        self.legs = {}

    def thorough(self):
        return self.tier == 'thorough'

    # ------------------------------------------------------------------
    def leg(self, name, **kw):
        """record one leg (sub-obligation) of the check in the evidence"""
        d = self.legs.setdefault(name, {})
        for k, v in kw.items():
            if isinstance(v, (int, float)) and isinstance(d.get(k), (int, float)) and not isinstance(v, bool):
                d[k] = d[k] + v
            else:
                d[k] = v
        return d

    def inconclusive_(self, msg):
        self.inconclusive.append(msg)

    def violation(self, key, what, replay):
        """a *replayed and confirmed* violation.  key: normal form used to match known findings"""
        for f in self.known:
            if f['key'] == key:
                self.known_hit[key] = f['what']
                return False
        if any(v[0] == key for v in self.violations):
            return True
        self.violations.append((key, what, replay))
        return True

    # ------------------------------------------------------------------
    def finish(self):
        wall = time.time() - self.t0
        ev_dir = os.environ.get('CALMJS_VERIF_EVIDENCE') or os.path.join(VERIF, 'evidence')
        os.makedirs(os.path.join(ev_dir, 'replays'), exist_ok=True)
        lines = []
        replay_paths = []
        for key, what, replay in self.violations:
            h = hashlib.sha256(json.dumps([key, replay], sort_keys=True, default=str).encode()).hexdigest()[:10]
            rp = os.path.join(ev_dir, 'replays', '%s-%s.json' % (self.pid, h))
            replay = dict(replay)
            replay.setdefault('property', self.pid)
            replay['key'] = key
            replay['what'] = what
            with open(rp, 'w') as f:
                json.dump(replay, f, indent=1, default=str)
            replay_paths.append(rp)
            lines.append('VIOLATION property=%s replay=%s  # %s :: %s' % (self.pid, rp, key, what))
        for f in self.known:
            if f['key'] in self.known_hit:
                print('KNOWN-FINDING: property=%s %s [%s]' % (self.pid, f['what'], f['key']))
            else:
                # listed but not observed on this run: say so (not an alarm), so a stale entry is visible
                print('NOTE: known finding not reproduced on this run: property=%s key=%s' % (self.pid, f['key']))
        cov = dict(self.coverage)
        cov['legs'] = self.legs
        cov['known_findings_matched'] = sorted(self.known_hit)
        cov['inconclusive'] = self.inconclusive[:20]
        ev = {
            'property_id': self.pid, 'tier': self.tier, 'seed': self.seed, 'level': self.level,
            'coverage': cov, 'assumptions': self.assumptions, 'wall_s': round(wall, 2),
            'violations': len(self.violations),
        }
        with open(os.path.join(ev_dir, '%s.json' % self.pid), 'w') as f:
            json.dump(ev, f, indent=1, default=str)
        for l in lines:
            print(l)
        if self.violations:
            print('%s: %d violation(s) in %.1fs' % (self.pid, len(self.violations), wall))
            return EXIT_VIOLATION
        if self.inconclusive:
            for m in self.inconclusive[:10]:
                print('INCONCLUSIVE: %s' % m)
            print('%s: inconclusive (harness error), %.1fs' % (self.pid, wall))
            return EXIT_HARNESS
        print('%s: held on everything explored (%s tier, %.1fs)' % (self.pid, self.tier, wall))
        return EXIT_OK


def pmap(fn, items, procs=None, chunksize=1):
    """fork-based parallel map (children inherit the loaded scratch copy)"""
    import multiprocessing as mp
    procs = procs or min(16, os.cpu_count() or 1)
    items = list(items)
    if procs <= 1 or len(items) <= 1:
        return [fn(x) for x in items]
    ctx = mp.get_context('fork')
    with ctx.Pool(procs) as pool:
        return pool.map(fn, items, chunksize=chunksize)
