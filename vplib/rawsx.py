"""Raw-token source: stands for the ply (regex-level) lexer underneath calmjs' Lexer wrapper.  It yields a sequence of
raw tokens whose KINDS ARE SYMBOLIC (finite-domain z3 Ints over all token kinds + multi-line block comment); the real
Lexer._token / _get_update_token / _set_tokens / auto_semi / _is_prev_token_lt / token / get_lexer_token /
_update_newline_idx run on top of it under SX and fork only on the classes of kinds they actually test."""
import re
import z3
import ply.lex as lex
from . import sx
from .sx import SBool, SXUnsupported, SXInfeasible


class SKind:
    """symbolic token kind; compares with kind names"""
    __slots__ = ('e', 'dom')

    def __init__(self, e, dom):
        self.e = e
        self.dom = dom          # RawDomain

    def _eq(self, o):
        if isinstance(o, SKind):
            return SBool(self.e == o.e)
        if isinstance(o, str):
            if o == 'BLOCK_COMMENT':
                return SBool(z3.Or(self.e == self.dom.idx['BLOCK_COMMENT'], self.e == self.dom.idx['BLOCK_COMMENT_ML']))
            if o == 'STRING':
                return SBool(z3.Or(self.e == self.dom.idx['STRING'], self.e == self.dom.idx['STRING_ML']))
            return SBool(self.e == self.dom.idx[o]) if o in self.dom.idx else SBool(z3.BoolVal(False))
        return SBool(z3.BoolVal(False))

    def __eq__(self, o): return self._eq(o)
    def __ne__(self, o): return ~self._eq(o)
    def __hash__(self): raise SXUnsupported('hash SKind')

    def isin(self, coll):
        return SBool(z3.Or([self._eq(x).e for x in coll] or [z3.BoolVal(False)]))

    def among(self, names):
        return z3.Or([self.e == self.dom.idx[n] for n in names if n in self.dom.idx] or [z3.BoolVal(False)])

    def __str__(self): raise SXUnsupported('str(SKind)')
    def __repr__(self): return 'SKind(%s)' % self.e


class AbsChar:
    """character peeked at lexdata[pos]: abstracted to the predicates the lexer evaluates on it"""
    def __init__(self, slash, star=None, blank=None):
        self.slash = slash
        self.star = star if star is not None else z3.BoolVal(False)
        self.blank = blank if blank is not None else z3.BoolVal(False)

    def __eq__(self, o):
        if o == '/':
            return SBool(self.slash)
        if o == '*':
            return SBool(self.star)
        if o in (' ', '\t'):
            return SBool(self.blank)
        return SBool(z3.BoolVal(False))

    def __ne__(self, o): return ~self.__eq__(o)

    def isin(self, c):
        if isinstance(c, str):
            c = tuple(c)
        return SBool(z3.Or([self.__eq__(x).e for x in c] or [z3.BoolVal(False)]))

    def __hash__(self): raise SXUnsupported('hash AbsChar')


class NLVal:
    """token value of which only 'contains a line terminator' is known (symbolically)"""
    def __init__(self, has_nl, kind):
        self.has_nl = has_nl
        self.kind = kind


for _c in (SKind, AbsChar, NLVal):
    sx.register_symbolic(_c)
_old_contains = sx.sym_contains


def _contains(c, x):
    if isinstance(x, SKind) and isinstance(c, (frozenset, set, tuple, list)):
        return x.isin(c)
    if isinstance(x, AbsChar):
        return x.isin(c)
    return _old_contains(c, x)


sx.sym_contains = _contains


def m_split(pat, v, *a):
    if isinstance(v, NLVal):
        if SBool(v.has_nl):
            return ['x', '\n', 'y']
        return ['x']
    return pat.split(v, *a)


sx.METHOD_MODELS[(re.Pattern, 'split')] = m_split
SLASH_FIRST = ['DIV', 'DIVEQUAL', 'REGEX', 'LINE_COMMENT', 'BLOCK_COMMENT', 'BLOCK_COMMENT_ML']
LAYOUT = ['LINE_TERMINATOR', 'LINE_COMMENT', 'BLOCK_COMMENT', 'BLOCK_COMMENT_ML']


class RawDomain:
    def __init__(self, LexerCls):
        # BLOCK_COMMENT_ML: block comment containing a line terminator; STRING_ML: string literal with a line continuation
        self.names = [t for t in LexerCls.tokens if t != 'AUTOSEMI'] + ['BLOCK_COMMENT_ML', 'STRING_ML']
        self.idx = {t: i for i, t in enumerate(self.names)}


class Data:
    def __init__(self, src):
        self.src = src

    def __getitem__(self, pos):
        src = self.src
        if isinstance(pos, slice):
            raise SXUnsupported('lexdata slice')
        k = pos - src.base
        if src.i >= len(src.kinds):
            raise IndexError
        kind = src.kinds[src.i]
        if k == 0:
            return AbsChar(kind.among(SLASH_FIRST))
        if k == 1:
            return AbsChar(kind.among(['LINE_COMMENT']), kind.among(['BLOCK_COMMENT', 'BLOCK_COMMENT_ML']))
        raise SXUnsupported('peek %d' % k)


class RawSource:
    """stand-in for the ply lexer object"""
    def __init__(self, dom, kinds):
        self.dom = dom
        self.kinds = kinds
        self.i = 0
        self.base = 1000
        self.lineno = 1
        self.mode = 'INITIAL'
        self.lexdata = Data(self)
        self.reads = []          # (index, mode) of every raw read

    @property
    def lexpos(self):
        return self.base

    def input(self, text):
        pass

    def begin(self, m):
        self.mode = m

    def skip(self, n):
        # backtracked_token(pos=1): step back one character = re-read the last raw item
        if n != -1:
            raise SXUnsupported('skip %r' % n)
        self.i -= 1
        self.base -= 10

    def token(self):
        if self.i >= len(self.kinds):
            return None
        k = self.kinds[self.i]
        t = lex.LexToken()
        t.lexpos = self.base
        t.lineno = self.lineno
        E = sx.E
        if self.mode == 'regex':
            # a slash-initial item read in regex mode is a REGEX token (DIV/DIVEQUAL/REGEX are faces of the same text)
            if not SBool(k.among(['DIV', 'DIVEQUAL', 'REGEX'])):
                raise SXInfeasible()
            t.type = 'REGEX'
            face = 'REGEX'
        else:
            if SBool(k.among(['REGEX'])):
                # the same text read in INITIAL mode starts with a division sign
                t.type = 'DIV'
                face = 'DIV'
            else:
                t.type = k
                face = 'DIV' if SBool(k.among(['DIV', 'DIVEQUAL'])) else None
        t.value = NLVal(k.among(['LINE_TERMINATOR', 'BLOCK_COMMENT_ML', 'STRING_ML']), k)
        self.reads.append((self.i, self.mode, face))
        self.i += 1
        self.base += 10
        return t


_counter = [0]


def make_lexer(LexerCls, dom, n, with_comments=False, yield_comments=False, tag=None):
    """a real Lexer object on top of a fresh raw source of n symbolic kinds"""
    E = sx.E
    kinds = []
    if tag is None:
        tag = 'k'
    for i in range(n):
        v = z3.Int('%s%d' % (tag, i))
        E.solver.add(v >= 0, v < len(dom.names))
        kinds.append(SKind(v, dom))
    L = LexerCls.__new__(LexerCls)
    L.lexer = None
    L.prev_token = None
    L.valid_prev_token = None
    L.cur_token = None
    L.cur_token_real = None
    L.next_tokens = []
    L.token_stack = [[None, []]]
    L.newline_idx = [0]
    L.error_token_handlers = []
    L.with_comments = with_comments
    L.yield_comments = yield_comments
    L.hidden_tokens = []
    src = RawSource(dom, kinds)
    L.lexer = src
    if not with_comments:
        L.token = L._token
    return L, src, kinds
