"""Per-production symbolic harness: the real p_* action runs on a real ply YaccProduction whose slots carry SYMBOLIC
(lexpos, lineno) - z3 Ints constrained only by the lexer's guarantee (C06: the offset lies on its line) and by slot
order - and a symbolic newline index (uninterpreted function line -> offset).  Children are real nodes (built by the
real actions from recipes) whose own position is again symbolic and assumed to satisfy the invariant (induction).
Used by C11 (node positions) and C08 (fragment positions)."""
import itertools
import z3
import ply.yacc as yacc
import ply.lex as lex
from . import sx, actions
from .sx import SIntZ, SBool


class NLIdx:
    """symbolic Lexer.newline_idx: offset just after the (i)th line terminator; nl(0) == 0"""
    def __init__(self):
        self.f = z3.Function('nl', z3.IntSort(), z3.IntSort())

    def __getitem__(self, i):
        return SIntZ(self.f(sx.zint(i)))


class StubLexer:
    with_comments = False

    def __init__(self, LexerCls, nl):
        self.newline_idx = nl
        self._cls = LexerCls
        self.lineno = SIntZ(z3.Int('cur_line'))
        self.lexpos = SIntZ(z3.Int('cur_pos'))

    def lookup_colno(self, lineno, lexpos):
        return self._cls.lookup_colno(self, lineno, lexpos)      # the real formula


def clear_positions(v, Node, seen=None):
    """children are position-less for the fragment check (their fragments then carry no explicit position)"""
    seen = set() if seen is None else seen
    if isinstance(v, Node):
        if id(v) in seen:
            return
        seen.add(id(v))
        v._token_map = {}
        v.lexpos = v.lineno = v.colno = None
        for x in vars(v).values():
            clear_positions(x, Node, seen)
    elif isinstance(v, (list, tuple)):
        for x in v:
            clear_positions(x, Node, seen)


def all_nodes(v, Node, out=None, seen=None):
    out = [] if out is None else out
    seen = set() if seen is None else seen
    if isinstance(v, Node):
        if id(v) in seen:
            return out
        seen.add(id(v))
        out.append(v)
        for k, x in vars(v).items():
            if k != '_token_map':
                all_nodes(x, Node, out, seen)
    elif isinstance(v, (list, tuple)):
        for x in v:
            all_nodes(x, Node, out, seen)
    return out


class Built:
    pass


def build(pr, combo, sp, LexerCls, Node, first_sets, nullable):
    """run pr's real action on symbolic positions; returns a Built record (or raises)"""
    E = sx.E
    nl = NLIdx()
    lexer = StubLexer(LexerCls, nl)
    E.solver.add(nl.f(0) == 0)
    B = Built()
    B.slots = []
    syms = [yacc.YaccSymbol()]
    syms[0].type = pr.name
    syms[0].value = None
    prev = None
    child_nodes = []
    for k, (X, rec) in enumerate(zip(pr.prod, combo), 1):
        pos = SIntZ(z3.Int('pos%d' % k))
        line = SIntZ(z3.Int('line%d' % k))
        E.solver.add(pos.e >= 0, line.e >= 1, nl.f(line.e - 1) <= pos.e, pos.e < nl.f(line.e))
        if prev is not None:
            E.solver.add(pos.e > prev[0].e, line.e >= prev[1].e)
        col = SIntZ(z3.simplify(pos.e - nl.f(line.e - 1) + 1))
        slot = dict(k=k, sym=X, pos=pos, line=line, col=col, terminal=X in sp, empty=False, text=None, child=None)
        if X in sp:
            # the token's characters and at least one terminator character precede the start of the next line
            E.solver.add(pos.e + len(sp[X]) < nl.f(line.e))
            t = lex.LexToken()
            t.type, t.value, t.lexpos, t.lineno = X, sp[X], pos, line
            t.colno = col
            syms.append(t)
            slot['text'] = sp[X]
        else:
            v = actions.build(rec)
            s = yacc.YaccSymbol()
            s.type, s.value, s.lexpos, s.lineno = X, v, pos, line
            s.endlexpos, s.endlineno = pos, line
            syms.append(s)
            slot['child'] = v
            slot['empty'] = (v is None or v == []) and X in nullable
            # induction hypothesis on every node of the child: a consistent triple inside the slot's extent
            for j, cn in enumerate(all_nodes(v, Node)):
                cp, cl = SIntZ(z3.Int('cpos%d_%d' % (k, j))), SIntZ(z3.Int('cline%d_%d' % (k, j)))
                E.solver.add(cp.e >= pos.e, cl.e >= line.e, nl.f(cl.e - 1) <= cp.e, cp.e < nl.f(cl.e))
                cn.lexpos, cn.lineno = cp, cl
                cn.colno = SIntZ(z3.simplify(cp.e - nl.f(cl.e - 1) + 1))
                child_nodes.append((k, cn))
        prev = (pos, line)
        B.slots.append(slot)
    # upper bounds: a child's own position lies before the next slot
    for (k, cn) in child_nodes:
        if k < len(B.slots):
            nxt = B.slots[k]
            E.solver.add(cn.lexpos.e < nxt['pos'].e, cn.lineno.e <= nxt['line'].e)
    # ply tracking: the result symbol carries the position of the first rhs symbol (empty: the lexer's position)
    if B.slots:
        syms[0].lexpos, syms[0].lineno = B.slots[0]['pos'], B.slots[0]['line']
    else:
        syms[0].lexpos, syms[0].lineno = lexer.lexpos, lexer.lineno
        E.solver.add(lexer.lexpos.e >= 0, lexer.lineno.e >= 1, nl.f(lexer.lineno.e - 1) <= lexer.lexpos.e, lexer.lexpos.e < nl.f(lexer.lineno.e))
    p = yacc.YaccProduction(syms, None)
    p.lexer = lexer
    p.parser = None
    before = {id(n) for _, n in child_nodes}
    pr.callable(p)
    B.result = p[0]
    B.nl = nl
    B.child_nodes = child_nodes
    B.new_nodes = [n for n in all_nodes(p[0], Node) if id(n) not in before]
    B.first = first_sets
    return B


def shape_combos(pr, shapes, rec, sp, cap=48):
    opts = []
    for X in pr.prod:
        if X in sp:
            opts.append([sp[X]])
        else:
            opts.append(list(shapes.get(X, {None: rec[X]}).values()))
    return list(itertools.islice(itertools.product(*opts), cap))


def slot_matches_text(slot, text, sp, first):
    """can this slot's first token be spelled `text`?"""
    if slot['terminal']:
        return slot['text'] == text
    if isinstance(slot['child'], str):
        return slot['child'] == text        # non-terminal whose value is the token spelling itself (assignment_operator)
    f = first.get(slot['sym'], set())
    return bool(f) and all(sp.get(t) == text for t in f) and not slot['empty']
