"""SymText: text whose line structure is fixed on the path but whose run lengths (and terminator kinds)
are symbolic.  Supports exactly the operations sourcemap.write performs on a fragment's text:
splitlines(True), len(), [-1:], `in '\\r\\n'`, rstrip(), endswith(); anything else is SXUnsupported."""
import z3
from . import sx
from .sx import SIntZ, SBool, SEnum, SXUnsupported

TERMS = ['\n', '\r', '\r\n']


class LastChar:
    """result of line[-1:]"""
    def __init__(self, line):
        self.line = line

    def sx_in(self, c):
        if not isinstance(c, str):
            raise SXUnsupported('LastChar in %r' % type(c))
        t = self.line.term
        if t is None:
            # last char of an unterminated run: by construction not a line terminator character
            if all(ch in '\r\n  ' for ch in c):
                return False
            raise SXUnsupported('LastChar(body) in %r' % c)
        return SBool(z3.Or([t.e == i for i, v in enumerate(t.vals) if v[-1] in c] or [z3.BoolVal(False)]))

    def __eq__(self, o):
        if isinstance(o, str):
            if len(o) != 1:
                return False
            return self.sx_in(o)
        return NotImplemented

    def __hash__(self):
        raise SXUnsupported('hash LastChar')


class Stripped:
    def __init__(self, n):
        self.sym_len = n


class SymLine:
    """one line piece: `body` characters (no terminators among them) + optional terminator"""
    def __init__(self, body, term):
        self.body = body          # SIntZ or int
        self.term = term          # None or SEnum over TERMS

    @property
    def sym_len(self):
        if self.term is None:
            return self.body if isinstance(self.body, SIntZ) else SIntZ(z3.IntVal(self.body))
        tl = z3.If(self.term.e == TERMS.index('\r\n'), 2, 1)
        return SIntZ(z3.simplify(sx.zint(self.body) + tl))

    def __getitem__(self, i):
        if isinstance(i, slice) and i.start == -1 and i.stop is None and i.step is None:
            return LastChar(self)
        raise SXUnsupported('SymLine[%r]' % (i,))

    def rstrip(self, *a):
        if a:
            raise SXUnsupported('rstrip(chars)')
        n = SIntZ(z3.FreshInt('rs'))
        sx.E.solver.add(n.e >= 0, n.e <= sx.zint(self.body))
        return Stripped(n)

    def endswith(self, s):
        if not isinstance(s, str) or not s:
            raise SXUnsupported('endswith(%r)' % (s,))
        if self.term is None:
            if all(ch in '\r\n' for ch in s):
                return False
            raise SXUnsupported('endswith on body')
        return bool(SBool(z3.Or([self.term.e == i for i, v in enumerate(TERMS) if v.endswith(s)] or [z3.BoolVal(False)])))

    def splitlines(self, keepends=False):
        return [self] if keepends else _unsup('splitlines(False)')

    def __bool__(self):
        return True

    def __str__(self):
        raise SXUnsupported('str(SymLine)')

    def __hash__(self):
        raise SXUnsupported('hash SymLine')


def _unsup(m):
    raise SXUnsupported(m)


class SymText:
    def __init__(self, lines):
        self.lines = lines

    def splitlines(self, keepends=False):
        if not keepends:
            raise SXUnsupported('splitlines(False)')
        return list(self.lines)

    @property
    def sym_len(self):
        t = z3.IntVal(0)
        for l in self.lines:
            t = t + l.sym_len.e
        return SIntZ(z3.simplify(t))

    def __bool__(self):
        return bool(self.lines)

    def __str__(self):
        raise SXUnsupported('str(SymText)')

    def __hash__(self):
        raise SXUnsupported('hash SymText')


for _c in (LastChar, Stripped, SymLine, SymText):
    sx.register_symbolic(_c)

_old_len = sx.MODELS[len]


def m_len(x):
    if isinstance(x, (Stripped, SymLine, SymText)):
        return x.sym_len
    return _old_len(x)


sx.MODELS[len] = m_len
_old_contains = sx.sym_contains


def sym_contains(c, x):
    if isinstance(x, LastChar):
        return x.sx_in(c)
    return _old_contains(c, x)


sx.sym_contains = sym_contains


def make_text(shape, tag):
    """shape: string over R (run of >=1 chars) and T (terminator); consecutive 'R' 'T' form one line.
    e.g. 'RTR' = run+terminator, run.  returns (text object, number_of_terminators, list of line objects)"""
    if shape == '':
        return '', 0, []
    lines = []
    i = 0
    n = 0
    while i < len(shape):
        body = 0
        if shape[i] == 'R':
            b = SIntZ(z3.Int('%s_run%d' % (tag, n)))
            sx.E.solver.add(b.e >= 1, b.e <= 10 ** 6)
            body = b
            i += 1
        term = None
        if i < len(shape) and shape[i] == 'T':
            term = SEnum.fresh('%s_term%d' % (tag, n), TERMS)
            i += 1
        lines.append(SymLine(body, term))
        n += 1
    return SymText(lines), sum(1 for l in lines if l.term is not None), lines
