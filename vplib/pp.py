"""Printer harness shared by C01 / C02 / C20 (and C13c, C14): the real unparsers run under SX on a concretely
parsed tree whose leaf spellings (Identifier, Number, String, Regex values) are z3 strings ranging over the token
language of their kind.  Per path (= one set of layout decisions of the real handlers) z3 is asked for spellings that
make two adjacent fragments fuse / change lexical class; every path's model is instantiated and replayed through the
plain parser and printer (tree identity, fix-point).
"""
import re, sys, os, time, itertools
import z3
from . import sx, rx, boot
from .sx import SZ3Str, SBool, SXUnsupported

KEYWORD_KINDS = None
LEAF_TYPES = ('Identifier', 'PropIdentifier', 'Number', 'String', 'Regex')
RESTRICTED = ('return', 'break', 'continue', 'throw')


class Langs:
    """leaf token languages and the 'any token' languages used by the fusion predicate, from the live Lexer"""
    def __init__(self, LexerCls, handlers_core):
        self.Lexer = LexerCls
        sets = rx.collect_sets(LexerCls.identifier) + rx.collect_sets(r'[\w\s]') + rx.collect_sets(handlers_core.required_space.pattern)
        for ch in LexerCls.t_ignore:
            sets.append([(ord(ch), ord(ch))])
        sets.append([(0x2028, 0x2029)])
        self.reps = rx.class_representatives(sets)
        self.A = rx.Alphabet(self.reps)
        A = self.A
        self.ID = rx.translate(LexerCls.identifier, 0, A)
        self.NUMBER = rx.translate(LexerCls.t_NUMBER, re.VERBOSE, A)
        self.REGEX = rx.translate(LexerCls.t_regex_REGEX, re.VERBOSE, A)
        # string leaves: the full pattern (look-ahead erased: `\r(?!\n)|\r\n` and `\r|\r\n` generate the same language
        # under the enclosing star because a bare \n is not otherwise admitted)
        self.STRING = rx.translate(LexerCls.string, re.VERBOSE, A, erase_lookaround=True)
        self.keywords = sorted(LexerCls.keywords_dict)
        self.punct = []
        for name in LexerCls.tokens:
            pat = getattr(LexerCls, 't_' + name, None)
            if isinstance(pat, str) and name not in ('NUMBER', 'LINE_COMMENT', 'BLOCK_COMMENT', 'LINE_TERMINATOR'):
                try:
                    lit_ = re.sub(r'\\(.)', r'\1', pat)
                    if re.fullmatch(pat, lit_):
                        self.punct.append(lit_)
                except re.error:
                    pass
        self.punct = sorted(set(self.punct))
        self.ANY_NONREGEX = rx.union([self.ID, self.NUMBER, self.STRING] + [rx.lit(p) for p in self.punct] +
                                     [rx.lit('//'), rx.lit('/*')])
        self.IDSTART_OR_DIGIT = z3.Union(rx.translate(LexerCls.identifier_start, 0, A), z3.Range('0', '9'))
        self.IDPART_CHAR = rx.translate(LexerCls.identifier_part[:-1], 0, A)      # one IdentifierPart character (pattern minus its trailing *)
        self.ALNUM = z3.Union(z3.Range('a', 'z'), z3.Range('A', 'Z'), z3.Range('0', '9'))
        self._compiled = {
            'ID': re.compile(LexerCls.identifier), 'NUMBER': re.compile(LexerCls.t_NUMBER, re.VERBOSE),
            'STRING': re.compile(LexerCls.string, re.VERBOSE), 'REGEX': re.compile(LexerCls.t_regex_REGEX, re.VERBOSE)}

    def leaf_lang(self, kind):
        return {'Identifier': self.ID, 'PropIdentifier': self.ID, 'Number': self.NUMBER, 'String': self.STRING, 'Regex': self.REGEX}[kind]

    def concrete_token_match(self, s, regex_mode):
        """does the concrete string s belong to some token language (or start a comment)?"""
        if regex_mode:
            return bool(self._compiled['REGEX'].fullmatch(s))
        if s in self.punct or s in ('//', '/*'):
            return True
        return any(self._compiled[k].fullmatch(s) for k in ('ID', 'NUMBER', 'STRING'))


class TokenMapProxy:
    """stands for Node._token_map when the key (leaf spelling) became symbolic"""
    def __init__(self, items):
        self.items = items

    def get(self, k, d=None):
        for kk, v in self.items:
            if kk is k:
                return v
        for kk, v in self.items:
            r = (kk == k)
            if r if isinstance(r, bool) else bool(r):
                return v
        return d


def abstract_leaves(tree, langs, maxlen, Walker, keep_concrete=()):
    """replace leaf spellings by z3 strings; returns list of dicts (node, kind, var, orig) in token order"""
    E = sx.E
    leaves = []
    nodes = [n for n in Walker().walk(tree)]
    nodes = [n for n in nodes if type(n).__name__ in LEAF_TYPES]
    nodes.sort(key=lambda n: (n.lexpos if n.lexpos is not None else -1))
    for i, n in enumerate(nodes):
        kind = type(n).__name__
        orig = n.value
        if kind in ('Identifier', 'PropIdentifier') and orig in langs.Lexer.keywords_dict:
            continue      # reserved word used as a property name stays concrete
        if id(n) in keep_concrete:
            continue
        v = z3.String('leaf%d' % i)
        E.solver.add(z3.InRe(v, langs.leaf_lang(kind)), z3.Length(v) <= maxlen.get(kind, 4))
        if kind in ('Identifier', 'PropIdentifier'):
            for kw in langs.keywords:
                if len(kw) <= maxlen.get(kind, 4):
                    E.solver.add(v != z3.StringVal(kw))
        ml = maxlen.get(kind, 4)
        creg = langs._compiled[{'Identifier': 'ID', 'PropIdentifier': 'ID', 'Number': 'NUMBER', 'String': 'STRING', 'Regex': 'REGEX'}[kind]]
        kws = langs.Lexer.keywords_dict
        isid = kind in ('Identifier', 'PropIdentifier')
        sx.LEAF_FILTERS[v.get_id()] = (lambda o, creg=creg, ml=ml, isid=isid: len(o) <= ml and creg.fullmatch(o) is not None and
                                       not (isid and o in kws))
        n.value = SZ3Str(v)
        tm = getattr(n, '_token_map', None)
        if tm is not None:
            n._token_map = TokenMapProxy([(n.value, tm.get(orig, []))])
        leaves.append(dict(node=n, kind=kind, var=v, orig=orig))
    return leaves


def is_layout_text(t):
    return isinstance(t, str) and t.strip(' \t\r\n\x0b\x0c') == ''


def frag_term(t):
    return t.e if isinstance(t, SZ3Str) else z3.StringVal(t)


class FragInfo:
    def __init__(self, frags, leaves):
        self.frags = frags
        by = {}
        for lf in leaves:
            by[lf['var'].get_id()] = lf
        self.tokens = []        # (index in frags, text, leaf or None)
        for i, f in enumerate(frags):
            t = f.text
            if isinstance(t, SZ3Str):
                lf = by.get(t.e.get_id())
                self.tokens.append((i, t, lf))
            elif t == '' or is_layout_text(t):
                continue
            else:
                self.tokens.append((i, t.strip(' \t\r\n'), None))
                self.padded = getattr(self, 'padded', {})
                self.padded[i] = (t[:1].isspace(), t[-1:].isspace(), t)

    def adjacent_pairs(self):
        """(x, y, separator_text) for consecutive token fragments"""
        out = []
        for (i, x, lx), (j, y, ly) in zip(self.tokens, self.tokens[1:]):
            sep = ''.join(f.text for f in self.frags[i + 1:j] if isinstance(f.text, str))
            pad = getattr(self, 'padded', {})
            if pad.get(i, (0, 0))[1] or pad.get(j, (0, 0))[0]:
                sep += ' '
            out.append((x, lx, y, ly, sep))
        return out


def fusion_obligations(E, info, langs, es5_rules=True):
    """for every directly adjacent token pair (x, y): no string p with x < p <= x.y is a token (or opens a comment).
    The query is specialised by the lexical class of x (sound case split, each case states which languages can extend x):
      identifier-like x : only ID can extend it            -> y[0] in IdentifierPart
      Number x          : only NUMBER can extend it         -> x.y[:k] in NUMBER ; ES5 7.8.3: y[0] not IdentifierStart/digit
      String x          : nothing extends a closed string
      Regex x           : only its flags                    -> y[0] in [a-zA-Z0-9] (calmjs) / IdentifierPart (ES5)
      punctuator x      : the finitely many longer punctuators / comment openers with prefix x ; '.' + digits (NUMBER)
    returns number of z3 queries asked; violations are recorded on the engine"""
    asked = 0
    for x, lx, y, ly, sep in info.adjacent_pairs():
        if sep != '':
            continue
        xs, ys = isinstance(x, SZ3Str), isinstance(y, SZ3Str)
        if lx is not None:
            xk = {'Identifier': 'id', 'PropIdentifier': 'id', 'Number': 'num', 'String': 'str', 'Regex': 'regex'}[lx['kind']]
        elif xs:
            raise SXUnsupported('symbolic fragment that is not a leaf')
        else:
            xk = ('id' if langs._compiled['ID'].fullmatch(x) else 'num' if langs._compiled['NUMBER'].fullmatch(x) else
                  'str' if langs._compiled['STRING'].fullmatch(x) else
                  'regex' if (len(x) > 1 and langs._compiled['REGEX'].fullmatch(x)) else 'punct')
        desc = 'adjacent tokens fuse / change lexical class (no separator emitted between %s and %s)' % (
            ('a %s leaf' % lx['kind']) if lx else repr(x), ('a %s leaf' % ly['kind']) if ly else repr(y))
        if xk == 'str':
            continue
        if not xs and not ys:
            xr = xk == 'regex'
            bad = any(langs.concrete_token_match(x + y[:k], xr) for k in range(1, len(y) + 1))
            if es5_rules and not bad and xk == 'num' and re.match(langs.Lexer.identifier_start + '|[0-9]', y):
                bad = True
            if es5_rules and not bad and xk == 'regex' and re.match(langs.Lexer.identifier_part[:-1] + '+', y):
                bad = True
            E.assertions += 1
            E._path_reached = True
            if bad:
                E.violations.append((desc, {'x': x, 'y': y}))
            continue
        ye = frag_term(y)
        y0 = z3.SubString(ye, 0, 1)
        if xk == 'id':
            cond = z3.InRe(y0, langs.IDPART_CHAR)
        elif xk == 'regex':
            cond = z3.InRe(y0, langs.IDPART_CHAR if es5_rules else langs.ALNUM)
        elif xk == 'num':
            xe = frag_term(x)
            k = z3.FreshInt('k')
            cond = z3.And(k >= 1, k <= z3.Length(ye), z3.InRe(z3.Concat(xe, z3.SubString(ye, 0, k)), langs.NUMBER))
            if es5_rules:
                cond = z3.Or(cond, z3.InRe(y0, langs.IDSTART_OR_DIGIT))
        else:
            longer = [t for t in langs.punct + ['//', '/*'] if t.startswith(x) and len(t) > len(x)]
            alts = [z3.PrefixOf(z3.StringVal(t[len(x):]), ye) for t in longer]
            if x == '.':
                alts.append(z3.InRe(y0, z3.Range('0', '9')))
            if not alts:
                continue
            cond = z3.Or(alts)
        asked += 1
        E.check(z3.Not(cond), desc)
    return asked


def newline_hazards(E, info):
    """(N): no line terminator emitted between a restricted keyword and what follows on its line, nor before a postfix ++/--"""
    toks = info.tokens
    for (i, x, lx), (j, y, ly) in zip(toks, toks[1:]):
        sep = ''.join(f.text for f in info.frags[i + 1:j] if isinstance(f.text, str))
        if not any(c in sep for c in '\r\n\u2028\u2029'):
            continue
        E.assertions += 1
        if isinstance(x, str) and x in RESTRICTED and not (isinstance(y, str) and y in (';', '}')):
            E.violations.append(('line terminator emitted after restricted keyword %r' % x, {}))
        if isinstance(y, str) and y in ('++', '--') and not (isinstance(x, str) and x in (';', '{', '}', ':')):
            E.violations.append(('line terminator emitted before %r following an expression' % y, {}))


# ------------------------------------------------------------------------------------------ concrete side
def leaf_token_positions(text, LexerCls):
    """(lexpos, type, value) of the ID/NUMBER/STRING/REGEX tokens of a text, via the real parser-driven lexer"""
    raise NotImplementedError


def instantiate(text, leaves, model_vals):
    """source text with the k-th abstracted leaf re-spelled (leaves carry node.lexpos of the original text)"""
    out = []
    pos = 0
    for lf, val in sorted(zip(leaves, model_vals), key=lambda p: p[0]['node'].lexpos):
        lp = lf['node'].lexpos
        out.append(text[pos:lp])
        out.append(val)
        pos = lp + len(lf['orig'])
    out.append(text[pos:])
    return ''.join(out)


def z3_str_value(m, v):
    s = m.eval(v, model_completion=True)
    return s.as_string() if hasattr(s, 'as_string') else str(s)


def unescape_z3(s):
    """z3 prints non-printable characters as \\u{..}"""
    return re.sub(r'\\u\{([0-9a-fA-F]+)\}', lambda mm: chr(int(mm.group(1), 16)), s)


def z3_literal(s):
    """decode str() of a z3 string value: the text between one pair of enclosing quotes, embedded quotes as they are
    (unlike sexpr(), str() does not double them), \\u{..} escapes decoded"""
    s = str(s)
    if len(s) >= 2 and s[0] == '"' and s[-1] == '"':
        s = s[1:-1]
    return unescape_z3(s)
