"""RX - Python `re` patterns (sre parse trees) as z3 regular expressions.

Two alphabets: full Unicode (ranges as written) or a *class alphabet*: ASCII as is plus one representative per
non-ASCII equivalence class of the character sets involved (every pattern is a union of classes, checked when
the partition is built), which keeps the 400-range identifier pattern tractable.
Look-arounds: `X(?!Y)` / `X(?=Y)` are only supported through `erase_lookaround=True` (callers must justify that
the language is unchanged) or at the very end of a pattern via translate_with_tail (returns (body, tail-constraint)).
"""
import re
import re._parser as sp
import re._constants as sc
import z3

RE_SORT = z3.ReSort(z3.StringSort())
EMPTY = z3.Empty(RE_SORT)
EPS = z3.Re(z3.StringVal(''))
ANYCHAR = z3.AllChar(RE_SORT)
FULL = z3.Full(RE_SORT)


class RXUnsupported(Exception):
    pass


def lit(c):
    return z3.Re(z3.StringVal(chr(c) if isinstance(c, int) else c))


def union(parts):
    parts = list(parts)
    if not parts:
        return EMPTY
    return z3.Union(*parts) if len(parts) > 1 else parts[0]


def concat(parts):
    parts = [p for p in parts]
    if not parts:
        return EPS
    return z3.Concat(*parts) if len(parts) > 1 else parts[0]


def rng(a, b):
    return lit(a) if a == b else z3.Range(z3.StringVal(chr(a)), z3.StringVal(chr(b)))


_cat_cache = {}


def category_ranges(cat, flags=0):
    pat = {sc.CATEGORY_SPACE: r'\s', sc.CATEGORY_WORD: r'\w', sc.CATEGORY_DIGIT: r'\d',
           sc.CATEGORY_NOT_SPACE: r'\S', sc.CATEGORY_NOT_WORD: r'\W', sc.CATEGORY_NOT_DIGIT: r'\D'}[cat]
    key = (pat, flags & re.ASCII)
    if key in _cat_cache:
        return _cat_cache[key]
    r = re.compile(pat, flags & re.ASCII)
    out = []
    start = None
    for c in range(0x110000):
        m = r.match(chr(c)) is not None
        if m and start is None:
            start = c
        if not m and start is not None:
            out.append((start, c - 1))
            start = None
    if start is not None:
        out.append((start, 0x10ffff))
    _cat_cache[key] = out
    return out


def set_ranges(items, flags=0):
    """(negated, [(lo,hi)...]) of an sre IN item list"""
    neg = False
    rs = []
    for op, arg in items:
        if op is sc.NEGATE:
            neg = True
        elif op is sc.LITERAL:
            rs.append((arg, arg))
        elif op is sc.RANGE:
            rs.append(tuple(arg))
        elif op is sc.CATEGORY:
            rs += category_ranges(arg, flags)
        else:
            raise RXUnsupported('set item %r' % (op,))
    return neg, rs


class Alphabet:
    """None = full unicode; otherwise a finite set of code points closed under the class partition"""
    def __init__(self, points=None):
        self.points = None if points is None else sorted(set(points))

    def charset(self, neg, ranges):
        if self.points is None:
            r = union(rng(a, b) for a, b in ranges)
            return z3.Intersect(ANYCHAR, z3.Complement(r)) if neg else r
        inr = lambda c: any(a <= c <= b for a, b in ranges)
        pts = [c for c in self.points if inr(c) != neg]
        # compress ascii runs into ranges for smaller terms
        out = []
        i = 0
        while i < len(pts):
            j = i
            while j + 1 < len(pts) and pts[j + 1] == pts[j] + 1:
                j += 1
            out.append(rng(pts[i], pts[j]))
            i = j + 1
        return union(out)

    def anychar(self, exclude=()):
        return self.charset(True, [(c, c) for c in exclude]) if exclude or self.points is not None else ANYCHAR

    def sigma_star(self):
        return FULL if self.points is None else z3.Star(self.charset(False, [(c, c) for c in self.points]))


FULLU = Alphabet(None)


def translate(pattern, flags=0, alphabet=FULLU, erase_lookaround=False):
    tree = sp.parse(pattern, flags)
    return _tr_seq(list(tree), flags, alphabet, erase_lookaround)


def _tr_seq(seq, flags, A, erase):
    return concat([x for x in (_tr1(n, flags, A, erase) for n in seq) if x is not None])


def _tr1(node, flags, A, erase):
    op, arg = node
    if op is sc.LITERAL:
        return lit(arg)
    if op is sc.NOT_LITERAL:
        return A.charset(True, [(arg, arg)])
    if op is sc.IN:
        neg, rs = set_ranges(arg, flags)
        return A.charset(neg, rs)
    if op is sc.ANY:
        return A.anychar(() if flags & re.S else (10,))
    if op is sc.BRANCH:
        return union(_tr_seq(list(a), flags, A, erase) for a in arg[1])
    if op is sc.SUBPATTERN:
        return _tr_seq(list(arg[3]), flags, A, erase)
    if op in (sc.MAX_REPEAT, sc.MIN_REPEAT):
        lo, hi, sub = arg
        r = _tr_seq(list(sub), flags, A, erase)
        if hi is sc.MAXREPEAT:
            if lo == 0:
                return z3.Star(r)
            if lo == 1:
                return z3.Plus(r)
            return concat([r] * lo + [z3.Star(r)])
        if lo == hi:
            return concat([r] * lo) if lo else EPS
        return z3.Loop(r, lo, hi)
    if op in (sc.ASSERT, sc.ASSERT_NOT):
        if erase:
            return None
        raise RXUnsupported('look-around')
    if op is sc.AT:
        if arg in (sc.AT_BEGINNING, sc.AT_END, sc.AT_BEGINNING_STRING, sc.AT_END_STRING):
            return None       # callers use fullmatch semantics
        raise RXUnsupported('AT %r' % (arg,))
    raise RXUnsupported('re op %r' % (op,))


def collect_sets(pattern, flags=0):
    """all character sets (as range lists) occurring in a pattern - input of the class partition"""
    out = []

    def walk(seq):
        for op, arg in seq:
            if op in (sc.LITERAL, sc.NOT_LITERAL):
                out.append([(arg, arg)])
            elif op is sc.IN:
                out.append(set_ranges(arg, flags)[1])
            elif op is sc.ANY:
                out.append([(10, 10)])
            elif op is sc.BRANCH:
                for b in arg[1]:
                    walk(b)
            elif op is sc.SUBPATTERN:
                walk(arg[3])
            elif op in (sc.MAX_REPEAT, sc.MIN_REPEAT):
                walk(arg[2])
            elif op in (sc.ASSERT, sc.ASSERT_NOT):
                walk(arg[1])
    walk(sp.parse(pattern, flags))
    return out


def class_representatives(sets, keep_ascii=True):
    """coarsest partition of code points not split by any of the sets; one representative per class (all ASCII kept)"""
    import bisect
    bounds = {0, 0x110000}
    for rs in sets:
        for a, b in rs:
            bounds.add(a)
            bounds.add(b + 1)
    if keep_ascii:
        bounds.add(128)
    bl = sorted(bounds)
    member = {}
    for si, rs in enumerate(sets):
        for a, b in rs:
            i = bisect.bisect_left(bl, a)
            j = bisect.bisect_left(bl, b + 1)
            for k in range(i, j):
                member.setdefault(k, []).append(si)
    classes = {}
    for k, (a, b) in enumerate(zip(bl, bl[1:])):
        if keep_ascii and a < 128:
            continue
        if 0xD800 <= a <= 0xDFFF:
            a2 = max(a, 0xE000)
            if a2 >= b:
                continue
            a = a2
        classes.setdefault(tuple(member.get(k, ())), a)
    reps = sorted(classes.values())
    return (list(range(128)) if keep_ascii else []) + reps
