"""C16 - walking reaches every node exactly once, in document order.

Legs:
 P  per production (all p_* actions, regenerated from the working tree): the real action is executed on every
    combination of child value shapes its non-terminal slots can yield (None / empty list / list / node - computed
    by a fix-point over the actions themselves), and for each node built: children() minus None == the Node-valued
    contents of vars(node), each once, in slot order.  (finite space, enumerated completely)
 T  on every tree of the bounded structure space (all token strings of length <= N accepted by the real tables,
    parsed by the real parser): walk yields every node once, parents first, same order twice; filter == walk + select
    for every node class occurring and for the constant-true condition.
 X  SX: Walker.extract(tree, cond, skip) with SYMBOLIC skip: z3 decides each `if not skip` / `skip -= 1`; the result
    is the skip-th match, TypeError exactly when skip >= number of matches.
"""
import itertools, sys, time
import z3
from .. import boot, common, gx, actions, sx
from ..sx import SIntZ

IGNORED_ATTRS = ('comments',)


def node_values(v, Node):
    """Node instances stored in an attribute value, in order"""
    out = []
    if isinstance(v, Node):
        out.append(v)
    elif isinstance(v, (list, tuple)):
        for x in v:
            out += node_values(x, Node)
    return out


def reflect_children(n, Node):
    exp = []
    for k, v in vars(n).items():
        if k in IGNORED_ATTRS or k == '_token_map':
            continue
        if k == '_children_list':
            exp += node_values(v, Node)
            continue
        exp += node_values(v, Node)
    return exp


def check_node(n, Node):
    got = [c for c in n]
    exp = reflect_children(n, Node)
    if len(got) != len(exp) or sorted(map(id, got)) != sorted(map(id, exp)):
        missing = [type(x).__name__ for x in exp if all(x is not g for g in got)]
        extra = [type(x).__name__ for x in got if all(x is not e for e in exp)]
        return 'children() of %s: missing %r, extra/duplicated %r' % (type(n).__name__, missing, extra)
    return None


def shapes(parser_obj):
    """per non-terminal: distinct value shapes its productions can return"""
    from calmjs.parse import asttypes
    rec, sp = actions.recipes(parser_obj)
    lr = parser_obj.parser
    out = {}
    for pr in lr.productions[1:]:
        if not all((X in sp) or (X in rec) for X in pr.prod):
            continue
        cand = (pr, [sp[X] if X in sp else rec[X] for X in pr.prod])
        try:
            v = actions.build(cand)
        except Exception:
            continue
        key = (type(v).__name__, len(v) if isinstance(v, list) else None)
        out.setdefault(pr.name, {}).setdefault(key, cand)
    return out, sp, rec


def leg_P(parser_obj):
    from calmjs.parse.asttypes import Node
    sh, sp, rec = shapes(parser_obj)
    lr = parser_obj.parser
    stats = dict(productions=0, combinations=0, nodes_checked=0, node_classes=set())
    fails = []
    for pr in lr.productions[1:]:
        stats['productions'] += 1
        opts = []
        for X in pr.prod:
            if X in sp:
                opts.append([sp[X]])
            else:
                opts.append(list(sh.get(X, {None: rec[X]}).values()))
        combos = itertools.islice(itertools.product(*opts), 256)
        for combo in combos:
            try:
                vals = [actions.build(c) for c in combo]
                r = actions.run_action(pr, vals)
            except Exception:
                continue
            stats['combinations'] += 1
            # every node reachable by attribute reflection from the action's result (an action may build nested nodes)
            todo = [r] if isinstance(r, Node) else list(node_values(r, Node))
            reach, seen_ids = [], set()
            while todo:
                x = todo.pop()
                if id(x) in seen_ids:
                    continue
                seen_ids.add(id(x))
                reach.append(x)
                todo += reflect_children(x, Node)
            for n in reach:
                stats['nodes_checked'] += 1
                stats['node_classes'].add(type(n).__name__)
                msg = check_node(n, Node)
                if msg:
                    fails.append((str(pr), msg))
    stats['node_classes'] = sorted(stats['node_classes'])
    return stats, fails


def check_tree(tree, Walker, Node):
    w = Walker()
    seq = list(w.walk(tree))
    ids = [id(n) for n in seq]
    if len(set(ids)) != len(ids):
        return 'walk yields a node twice'
    # reference traversal by attribute reflection
    ref = []

    def rec(n):
        for c in reflect_children(n, Node):
            ref.append(c)
            rec(c)
    rec(tree)
    if sorted(ids) != sorted(id(n) for n in ref):
        miss = [type(n).__name__ for n in ref if id(n) not in set(ids)]
        return 'walk misses nodes stored in attributes: %r' % miss[:5]
    pos = {id(n): i for i, n in enumerate(seq)}
    for n in seq:
        for c in n:
            if pos[id(c)] < pos[id(n)]:
                return 'descendant yielded before its parent'
    if [id(n) for n in w.walk(tree)] != ids:
        return 'second walk yields a different order'
    # document order: the children of every node are met in the order of the source offsets of their first leaf
    first = {}

    def first_leaf(n):
        if id(n) not in first:
            ch = reflect_children(n, Node)
            cand = [first_leaf(c) for c in ch]
            cand = [c for c in cand if c is not None]
            if not ch and getattr(n, 'lexpos', None) is not None:
                cand.append(n.lexpos)
            first[id(n)] = min(cand) if cand else None
        return first[id(n)]
    for n in seq + [tree]:
        offs = [first_leaf(c) for c in n]
        offs = [o for o in offs if o is not None]
        if offs != sorted(offs):
            return 'walk is not in document order (children of %s): first-leaf offsets %r' % (type(n).__name__, offs)
    conds = [('true', lambda n: True)] + [(t.__name__, (lambda t: lambda n: type(n) is t)(t)) for t in {type(n) for n in seq}]
    for name, c in conds:
        if [id(n) for n in w.filter(tree, c)] != [id(n) for n in seq if c(n)]:
            return 'filter(%s) != walk + select' % name
    return None


def h_extract(Walker, tree, cond, matches):
    def harness():
        E = sx.E
        skip = SIntZ(z3.Int('skip'))
        E.solver.add(skip.e >= 0, skip.e <= len(matches) + 3)
        wit = lambda m: {'skip': m.eval(skip.e, model_completion=True).as_long()}
        try:
            r = Walker().extract(tree, cond, skip=skip)
        except TypeError:
            E.check(skip >= len(matches), 'extract raised TypeError although a match exists at that index', wit)
            return
        idx = [i for i, mm in enumerate(matches) if mm is r]
        E.check(bool(idx) and (skip == idx[0]), 'extract(skip) returned a node that is not the skip-th match', wit)
    return harness


def _tree_job(words):
    from calmjs.parse.parsers.es5 import parse
    from calmjs.parse.walkers import Walker
    from calmjs.parse.asttypes import Node
    sp = _TL['sp']
    out = []
    n = 0
    for w in words:
        text = ' '.join(sp[t] for t in w)
        try:
            tree = parse(text)
        except Exception:
            continue
        n += 1
        msg = check_tree(tree, Walker, Node)
        if not msg:
            for node in Walker().walk(tree):
                msg = check_node(node, Node)
                if msg:
                    break
        if msg:
            out.append((text, msg))
    return n, out[:5]


_TL = {}


def replay(d):
    from calmjs.parse.parsers.es5 import parse
    from calmjs.parse.walkers import Walker
    from calmjs.parse.asttypes import Node
    w = d['input']
    if 'text' in w:
        tree = parse(w['text'])
        msg = check_tree(tree, Walker, Node)
        if not msg:
            for node in Walker().walk(tree):
                msg = msg or check_node(node, Node)
        if not msg and 'skip' in w:
            cond = lambda n: True
            matches = list(Walker().walk(tree))
            try:
                r = Walker().extract(tree, cond, skip=w['skip'])
                if w['skip'] >= len(matches) or r is not matches[w['skip']]:
                    msg = 'extract(skip=%d) returned the wrong node' % w['skip']
            except TypeError:
                if w['skip'] < len(matches):
                    msg = 'extract(skip=%d) raised TypeError although %d matches exist' % (w['skip'], len(matches))
        return bool(msg), 'program %r: %s' % (w['text'], msg or 'ok')
    if 'production' in w:
        p = boot.fresh_parser()
        st, fails = leg_P(p)
        hit = [f for f in fails if f[0] == w['production']]
        return bool(hit), '%s: %s' % (w['production'], hit[0][1] if hit else 'ok')
    raise common.HarnessError('bad replay input')


def main():
    run = common.Run('C16', 'other')
    boot.load_plain()
    boot.warm_tabs()
    p = boot.fresh_parser()
    th = run.thorough()
    from .. import replay as rp
    # ---- leg P
    st, fails = leg_P(p)
    run.leg('P_per_production', **st)
    seen = set()
    for prod, msg in fails:
        key = 'P: ' + msg.split(':')[0]
        if key in seen:
            continue
        seen.add(key)
        rpd = {'property': 'C16', 'input': {'production': prod}}
        ok, detail = rp.run_in_subprocess(rpd)
        if ok:
            run.violation(key, detail[:400], rpd)
        else:
            run.inconclusive_('per-production failure did not reproduce: %s %s' % (prod, msg))
    # ---- leg T
    Tb, G = gx.extract(p)
    N = 5 if th else 4
    words = gx.enumerate_accepted(Tb, G, N)
    # + one sentence per production (each right-hand side symbol expanded to its shortest phrase, in the shortest context of
    # the left-hand side), so that every node kind occurs with all of its sub-nodes present (document order obligation)
    from . import ppcheck
    ctxs = ppcheck.c03mod.contexts(G)
    short = {t: (t,) for t in G.terms}
    ch = True
    while ch:
        ch = False
        for l, r in G.prods:
            if all(x in short for x in r):
                wv = tuple(y for x in r for y in short[x])
                if l not in short or len(wv) < len(short[l]):
                    short[l] = wv
                    ch = True
    nprod = 0
    for l, r in G.prods:
        if l in ctxs:
            u, v = ctxs[l]
            w = tuple(u) + tuple(y for x in r for y in short[x]) + tuple(v)
            w = tuple('SEMI' if t == 'AUTOSEMI' else t for t in w)
            if w and gx.lr_run(Tb, list(w)) is not None:
                words.append(w)
                nprod += 1
    words = list(dict.fromkeys(tuple(w) for w in words))
    _TL['sp'] = actions.spellings(type(p.lexer))
    chunks = [words[i::64] for i in range(64)]
    res = common.pmap(_tree_job, chunks)
    ntrees = sum(r[0] for r in res)
    run.leg('T_structure_space', accepted_token_strings=len(words), per_production_sentences=nprod, trees_parsed=ntrees, max_len=N)
    for n, bad in res:
        for text, msg in bad:
            key = 'T: ' + msg.split(':')[0][:80]
            if key in seen:
                continue
            seen.add(key)
            rpd = {'property': 'C16', 'input': {'text': text}}
            ok, detail = rp.run_in_subprocess(rpd)
            if ok:
                run.violation(key, detail[:400], rpd)
            else:
                run.inconclusive_('tree failure did not reproduce: %r %s' % (text, msg))
    # ---- leg X (SX)
    src = boot.scratch_dir()
    sx.install(src)
    from calmjs.parse.parsers.es5 import parse
    from calmjs.parse.walkers import Walker
    from calmjs.parse import asttypes
    progs = ['a = b = c + d * e;', 'function f(x) { if (x) { return [x, {y: x}]; } else return f(f(x)); }', 'x;']
    sxs = dict(paths=0, z3_checks=0, assertions=0, solver_s=0.0, harnesses=0)
    for text in progs:
        tree = parse(text)
        conds = [('true', lambda n: True), ('Identifier', lambda n: isinstance(n, asttypes.Identifier)),
                 ('BinOp|Assign|FunctionCall', lambda n: isinstance(n, (asttypes.BinOp, asttypes.Assign, asttypes.FunctionCall)))]
        for cname, cond in conds:
            matches = [n for n in _plain_walk(tree) if cond(n)]
            E = sx.new_engine(max_decisions=400)
            E.explore(h_extract(Walker, tree, cond, matches))
            s = E.stats()
            sxs['harnesses'] += 1
            for k in ('paths', 'z3_checks', 'assertions', 'solver_s'):
                sxs[k] = round(sxs[k] + s[k], 3)
            if s['unsupported'] or s['errors'] or s['bound_hits']:
                run.inconclusive_('extract harness %r/%s: %r' % (text, cname, (E.unsupported + E.errors)[:2]))
            if s['reached'] < (2 if matches else 1):
                run.inconclusive_('extract harness %r/%s vacuous' % (text, cname))
            for msg, w in E.violations[:1]:
                key = 'X: ' + msg
                if key in seen:
                    continue
                seen.add(key)
                rpd = {'property': 'C16', 'input': {'text': text, 'skip': int(w['skip'])}}
                ok, detail = rp.run_in_subprocess(rpd)
                if ok:
                    run.violation(key, detail[:400], rpd)
                else:
                    run.inconclusive_('extract violation did not reproduce (%s, skip=%s) - condition %s' % (text, w['skip'], cname))
    run.leg('X_extract_symbolic_skip', **sxs)
    run.coverage.update({
        'explanation': 'P: every p_* action executed on every combination of child value shapes (finite, complete); T: every accepted token '
                       'string of length <= %d parsed and walked; X: Walker.extract under SX with a symbolic skip count (z3 decides the loop exits).' % N,
        'evaluations': st['combinations'] + ntrees + sxs['paths'], 'distinct_nontrivial': st['nodes_checked'] + ntrees,
        'rule': 'P: one evaluation per (production, child-shape combination) that builds a node; T: one per accepted token string parsed; X: one per SX path',
        'samples': [{'P': st['node_classes'][:12]}, {'T_example': ' '.join(words[len(words) // 2]) if words else ''}, {'X': sxs}],
        'exhaustive': True,
        'bounds': {'P': 'all %d productions x all child shape combinations (cap 256 per production)' % st['productions'], 'T': 'token strings <= %d' % N,
                   'X': '%d programs x 3 conditions, skip in [0, matches+3]' % len(progs),
                   'outside': 'the comments attribute (comment nodes are not children by design); trees deeper than the bound for T'},
        'queries': sxs['z3_checks'], 'solver_s': sxs['solver_s'],
    })
    run.assumptions += ['document order = order of vars(node) slots as assigned by the constructors (checked against token positions in C11)']
    return run.finish()


def _plain_walk(node):
    for c in node:
        yield c
        for s in _plain_walk(c):
            yield s
