"""C11 - every AST node position is self-consistent and lies on one of the node's own tokens.

Leg S (deciding, SX, inductive per production): every real p_* action is executed on symbolic slot positions
(vplib/prodsx.py) for every combination of child value shapes; for every node the action creates z3 decides
 (a) (lexpos, lineno, colno) agree under the symbolic newline index (colno == lexpos - nl(lineno-1) + 1, offset on its line),
 (b) the position is the start of one of the production's non-empty slots or the position of a child node
     (which satisfies the invariant by induction) - for-clause placeholders exempt,
 (c) every _token_map[text] entry is the position of a slot whose first token is spelled text (elision runs: first comma),
     entries in source order.
Leg W (replay, whole programs): corpus x layouts (LF, CR, CRLF, U+2028/9, multi-line tokens): every node's triple
agrees with an independent line/column count and the token text occurs at the recorded offsets.
"""
import re, sys, time
import z3
from .. import boot, common, sx, actions, gx, prodsx
from ..sx import SIntZ
from . import c16 as c16mod

LTS = ['\n', '\r', '\r\n', '\u2028', '\u2029']


def _zb(x):
    return z3.BoolVal(x) if isinstance(x, bool) else x.e


def harness_for(pr, combo, ctx):
    sp, LexerCls, Node, first, nullable, asttypes = ctx

    def harness():
        E = sx.E
        B = prodsx.build(pr, combo, sp, LexerCls, Node, first, nullable)
        nl = B.nl
        is_for = pr.name == 'iteration_statement' and pr.prod and pr.prod[0] == 'FOR'
        nonempty_slots = [s for s in B.slots if not s['empty']]
        cand = [(s['pos'], s['line']) for s in nonempty_slots] + [(cn.lexpos, cn.lineno) for _, cn in B.child_nodes]
        for n in B.new_nodes:
            name = type(n).__name__
            if n.lexpos is None and n.lineno is None:
                continue            # nodes without position (comment containers etc.) are not part of the claim
            lp, ln, cn = sx.zint(n.lexpos), sx.zint(n.lineno), sx.zint(n.colno)
            E.check(z3.And(cn == lp - nl.f(ln - 1) + 1, nl.f(ln - 1) <= lp, lp < nl.f(ln)),
                    '%s built by `%s`: offset, line and column do not agree' % (name, pr))
            placeholder = is_for and name == 'EmptyStatement'
            if not placeholder and cand:
                E.check(z3.Or([z3.And(lp == sx.zint(a), ln == sx.zint(b)) for a, b in cand]),
                        '%s built by `%s`: position is not the start of one of its own tokens' % (name, pr))
            if not placeholder and n is B.result and nonempty_slots:
                # the node the production stands for: its first token, or one of the production's own terminals (the operator
                # of a binary / assignment / conditional / accessor form) - not the start of a later operand
                top = nonempty_slots[:1] + [s for s in nonempty_slots[1:] if s['terminal'] or isinstance(s['child'], str)]
                k1 = nonempty_slots[0]['k']
                alts = [z3.And(lp == sx.zint(s['pos']), ln == sx.zint(s['line'])) for s in top]
                # ... or the position of a node of the first slot (a node cloned from / anchored on its leading child)
                alts += [z3.And(lp == sx.zint(c.lexpos), ln == sx.zint(c.lineno)) for k, c in B.child_nodes if k == k1]
                E.check(z3.Or(alts),
                        '%s built by `%s`: position is neither the first token of the production nor one of its own terminals' % (name, pr))
            tm = getattr(n, '_token_map', None) or {}
            if any(getattr(c, '_token_map', None) is tm for _, c in B.child_nodes):
                continue        # table cloned from a child node (identifier_name_string): covered by the child's hypothesis
            for text, lst in list(tm.items()):
                if not isinstance(text, str):
                    continue
                key = ',' if re.fullmatch(r',+', text) else text
                slots = [s for s in B.slots if prodsx.slot_matches_text(s, key, sp, first)]
                # positions cloned from a child node (identifier_name_string) are covered by the child's hypothesis
                childpos = [(c.lexpos, c.lineno) for _, c in B.child_nodes if getattr(c, '_token_map', None) is tm]
                prev = None
                for (a, b, c) in lst:
                    alts = [z3.And(sx.zint(a) == s['pos'].e, sx.zint(b) == s['line'].e, sx.zint(c) == s['col'].e) for s in slots]
                    alts += [z3.And(sx.zint(a) == sx.zint(x), sx.zint(b) == sx.zint(y)) for x, y in childpos]
                    E.check(z3.Or(alts) if alts else z3.BoolVal(False),
                            '%s built by `%s`: recorded position of token %r is not where that token stands' % (name, pr, text))
                    if prev is not None:
                        E.check(sx.zint(a) > sx.zint(prev), '%s built by `%s`: positions of repeated token %r not in source order' % (name, pr, text))
                    prev = a
    return harness


def _job(args):
    pnum, ci = args
    ctx = _TL['ctx']
    pr = _TL['prods'][pnum]
    combo = _TL['combos'][pnum][ci]
    E = sx.new_engine(max_decisions=300)
    E.explore(harness_for(pr, combo, ctx))
    return pnum, ci, E.stats(), E.violations[:4], (E.unsupported + E.errors)[:2]


_TL = {}


# ------------------------------------------------------------------------------------------ whole-program replay
def linecol(text, off):
    """independent ES5 line/column (1-based) of an offset"""
    line, start, i = 1, 0, 0
    while i < off:
        c = text[i]
        if c == '\r' and text[i + 1:i + 2] == '\n':
            if i + 1 < off:
                i += 2
                line += 1
                start = i
                continue
            i += 1
            continue
        if c in '\n\r\u2028\u2029':
            line += 1
            start = i + 1
        i += 1
    return line, off - start + 1


def check_program(text):
    from calmjs.parse.parsers.es5 import parse
    from calmjs.parse.walkers import Walker
    from calmjs.parse import asttypes
    tree = parse(text)

    def leaves(n, out):
        ch = [c for c in n if isinstance(c, asttypes.Node)]
        if not ch:
            if n.lexpos is not None:
                out.append(n.lexpos)
        for c in ch:
            leaves(c, out)
        return out
    for n in [tree] + list(Walker().walk(tree)):
        if n.lexpos is None:
            continue
        placeholder = False
        # own token: a node stands on its first token or on a token of its own (keyword, operator, bracket) - never on the
        # first token of a later operand, i.e. on a descendant leaf other than the leftmost one
        ls = leaves(n, [])
        if len(ls) > 1 and any(c is not n for c in n) and n.lexpos in ls and n.lexpos != min(ls):
            return '%s: its position (offset %d, %r) is the start of a later operand, neither its first token nor a token of its own' % (
                type(n).__name__, n.lexpos, text[n.lexpos:n.lexpos + 8])
        if (n.lineno, n.colno) != linecol(text, n.lexpos):
            return '%s: offset %d is %r but node says %d:%d' % (type(n).__name__, n.lexpos, linecol(text, n.lexpos), n.lineno, n.colno)
        for tok, lst in (getattr(n, '_token_map', None) or {}).items():
            if not isinstance(tok, str):
                continue
            for (a, b, c) in lst:
                if isinstance(n, asttypes.EmptyStatement) and False:
                    continue
                if (b, c) != linecol(text, a) and not (tok == ';' and c == 0):
                    return '%s: token %r recorded at offset %d as %d:%d, is %r' % (type(n).__name__, tok, a, b, c, linecol(text, a))
                first = ',' if re.fullmatch(r',+', tok) else tok
                if not text.startswith(first, a) and not (tok == ';'):
                    return '%s: token %r does not occur at recorded offset %d (found %r)' % (type(n).__name__, tok, a, text[a:a + 8])
    return None


def layouts(words, sp):
    """texts for a token string under several layouts"""
    toks = [sp[t] for t in words]
    out = []
    out.append(' '.join(toks))
    for lt in LTS:
        # break lines only where it cannot change the parse: after ; { } and inside multi-line tokens
        s = ''
        for i, t in enumerate(toks):
            s += t
            if t in (';', '{', '}') and i + 1 < len(toks):
                s += lt + '  '
            else:
                s += ' '
        out.append('/* a' + lt + 'b' + lt + lt + 'c */ ' + s + " 'x\\" + lt + "y\\" + lt + "z' ;")
    # a byte order mark (ES5 white space) as the very first character, then a line break
    out.append('\ufeff' + ' '.join(toks))
    out.append('\ufeff\n\ufeff ' + ' '.join(toks))
    return out


def _prog_job(words_chunk):
    sp = _TL['sp']
    bad = []
    n = 0
    for w in words_chunk:
        for text in layouts(w, sp):
            try:
                msg = check_program(text)
            except Exception as e:
                if type(e).__name__ in ('ECMASyntaxError', 'ECMARegexSyntaxError'):
                    continue
                msg = 'exception %s: %s' % (type(e).__name__, e)
            n += 1
            if msg:
                bad.append((text, msg))
    return n, bad[:3]


def replay(d):
    w = d['input']
    if 'text' in w:
        try:
            msg = check_program(w['text'])
        except Exception as e:
            msg = 'exception %s: %s' % (type(e).__name__, e)
        return bool(msg), 'program %r: %s' % (w['text'], msg or 'ok')
    # per-production witness: re-run the symbolic harness on the plain package is not possible; a program using the
    # production is replayed instead
    from . import ppcheck
    return False, 'no concrete replay'


def main():
    run = common.Run('C11', 'other')
    th = run.thorough()
    boot.load_plain()
    pplain = boot.fresh_parser()
    Tb, G = gx.extract(pplain)
    spw = actions.spellings(type(pplain.lexer))
    from . import ppcheck
    # corpus for the whole-program leg (built on the plain package before instrumenting)
    ctxs = ppcheck.c03mod.contexts(G)
    words = gx.enumerate_accepted(Tb, G, 4 if th else 3)
    words = [w for w in words if 'AUTOSEMI' not in w and w]
    short = {}
    for t in G.terms:
        short[t] = (t,)
    ch = True
    while ch:
        ch = False
        for l, r in G.prods:
            if all(x in short for x in r):
                wv = tuple(y for x in r for y in short[x])
                if l not in short or len(wv) < len(short[l]):
                    short[l] = wv
                    ch = True
    for l, r in G.prods:
        if l in ctxs:
            u, v = ctxs[l]
            w = tuple(u) + tuple(y for x in r for y in short[x]) + tuple(v)
            w = tuple('SEMI' if t == 'AUTOSEMI' else t for t in w)
            if w and gx.lr_run(Tb, list(w)) is not None:
                words.append(w)
    words = list(dict.fromkeys(words))
    # ---- leg S under SX
    src = boot.scratch_dir()
    sx.install(src)
    boot.warm_tabs()
    p = boot.fresh_parser()
    from calmjs.parse.asttypes import Node
    from calmjs.parse import asttypes
    from calmjs.parse.lexers.es5 import Lexer
    Tb2, G2 = gx.extract(p)
    first, nullable = G2.first_sets()
    sh, sp, rec = c16mod.shapes(p)
    prods = p.parser.productions
    combos = {}
    jobs = []
    for pnum, pr in enumerate(prods):
        if pnum == 0:
            continue
        combos[pnum] = prodsx.shape_combos(pr, sh, rec, sp, cap=64 if th else 24)
        for ci in range(len(combos[pnum])):
            jobs.append((pnum, ci))
    _TL.update(ctx=(sp, Lexer, Node, first, nullable, asttypes), prods=prods, combos=combos, sp=spw)
    res = common.pmap(_job, jobs, chunksize=16)
    tot = dict(paths=0, reached=0, z3_checks=0, assertions=0, solver_s=0.0)
    samples = []
    viol_keys = {}
    for pnum, ci, st, viols, errs in res:
        for k in tot:
            tot[k] += st[k]
        if st['unsupported'] or st['errors'] or st['bound_hits']:
            run.inconclusive_('%s combo %d: %r' % (prods[pnum], ci, errs))
        if len(samples) < 4 and st['assertions'] > 3:
            samples.append({'production': str(prods[pnum]), 'child_shapes': ci, 'stats': st})
        for msg, w in viols:
            viol_keys.setdefault(msg, (pnum, ci, w))
    # ---- leg W
    chunks = [words[i::64] for i in range(64)]
    pres = common.pmap(_prog_job, chunks)
    nprog = sum(r[0] for r in pres)
    from .. import replay as rp
    seen = set()
    for n, bad in pres:
        for text, msg in bad:
            key = 'W: ' + re.sub(r'\d+', 'N', msg)[:120]
            if key in seen:
                continue
            seen.add(key)
            rpd = {'property': 'C11', 'input': {'text': text}}
            ok, detail = rp.run_in_subprocess(rpd)
            if ok:
                run.violation(key, detail[:500], rpd)
            else:
                run.inconclusive_('program failure did not reproduce: %r %s' % (text, msg))
    # solver violations: confirm on a concrete program that uses the production (corpus sentence under layouts)
    for msg, (pnum, ci, w) in viol_keys.items():
        pr = prods[pnum]
        confirmed = False
        l = pr.name
        if l in ctxs:
            u, v = ctxs[l]
            wd = tuple(u) + tuple(y for x in pr.prod for y in short.get(x, (x,))) + tuple(v)
            wd = tuple('SEMI' if t == 'AUTOSEMI' else t for t in wd)
            for text in layouts(wd, spw):
                rpd = {'property': 'C11', 'input': {'text': text, 'production': str(pr), 'law': msg}}
                ok, detail = rp.run_in_subprocess(rpd)
                if ok:
                    run.violation('S: ' + msg, detail[:500], rpd)
                    confirmed = True
                    break
        if not confirmed:
            # the symbolic obligation failed but no concrete program of the replay set shows it: report as inconclusive
            run.inconclusive_('per-production obligation failed (%s; model %r) but the replay programs do not exhibit it' % (msg, dict(list(w.items())[:6])))
    run.leg('W_whole_programs', token_strings=len(words), programs_checked=nprog, layouts=1 + len(LTS))
    run.coverage.update({
        'explanation': 'S: every real p_* action on symbolic slot positions (z3 Ints; symbolic newline index as an uninterpreted function) for every '
                       'child-shape combination: z3 decides consistency, own-token and token-map obligations for every node created - all layouts at once. '
                       'W: concrete replay of %d programs (corpus x %d layouts) against an independent line/column counter.' % (nprog, 1 + len(LTS)),
        'evaluations': tot['paths'] + nprog, 'distinct_nontrivial': tot['reached'],
        'rule': 'S: one evaluation per (production, child-shape combination, path); W: one per program text',
        'samples': samples, 'queries': tot['z3_checks'], 'solver_s': round(tot['solver_s'], 1), 'assertions_discharged': tot['assertions'],
        'productions': len(prods) - 1, 'combinations': len(jobs),
        'bounds': {'S': 'all productions x child shape combinations (cap %d); positions unbounded' % (64 if th else 24),
                   'W': 'accepted token strings <= %d + production corpus, %d layouts' % (4 if th else 3, 1 + len(LTS)),
                   'outside': 'comments attached to nodes (C13); the lexer guarantee assumed in S is C06'},
    })
    run.assumptions += ['ply tracking=True: p.lexpos(i)/p.lineno(i) of a non-terminal are those of its first token (validated by leg W)',
                        'lexer guarantee (C06): each token offset lies on its recorded line',
                        'child nodes satisfy the invariant (induction over the derivation)']
    return run.finish()
