"""C18 - stream helpers: same output, valid map link, no leaked streams.

Deciding step: the real io.read / io.write / sourcemap.write_sourcemap / verify_write_sourcemap_args run under
SX with stream doubles whose every operation (factory call, read, parse, unparse step, write, writelines) ticks a
shared counter; the operation raises when the counter equals a SYMBOLIC fault index f.  z3 decides each
comparison, so the explored paths are exactly the feasible fault positions plus the fault-free run; on each path:
factory-made streams closed exactly once, passed-in streams never, the fault propagates, and on the fault-free
path the text is the printer's output followed by a sourceMappingURL designating the map the lower-level API yields
(computed independently with os.path.relpath / a base64 decode).
"""
import os, sys, io as pyio, json, base64, time, itertools
import z3
from .. import boot, common, sx
from ..sx import SIntZ, SBool

MAXTICKS = 200


class Fault(Exception):
    pass


class Ctl:
    def __init__(self):
        self.counter = 0
        self.f = SIntZ(z3.Int('fault_index'))
        sx.E.solver.add(self.f.e >= 0, self.f.e <= MAXTICKS)
        self.fired = None
        self.log = []

    def tick(self, what):
        i = self.counter
        self.counter += 1
        if i >= MAXTICKS:
            raise sx.SXBound()
        self.log.append(what)
        if self.f == i:
            self.fired = (i, what)
            raise Fault('injected fault at call #%d (%s)' % (i, what))


class Stream:
    def __init__(self, ctl, name=None, text=None, encoding=None):
        self.ctl = ctl
        if name is not None:
            self.name = name
        if encoding:
            self.encoding = encoding
        self.text = text
        self.out = []
        self.closed = 0

    def read(self):
        self.ctl.tick('read')
        return self.text

    def write(self, s):
        self.ctl.tick('write')
        self.out.append(s)

    def writelines(self, lines):
        self.ctl.tick('writelines')
        self.out.extend(lines)

    def close(self):
        self.closed += 1

    def getvalue(self):
        return ''.join(self.out)


class Factory:
    def __init__(self, ctl, **kw):
        self.ctl, self.kw = ctl, kw
        self.made = []

    def __call__(self):
        self.ctl.tick('open')
        s = Stream(self.ctl, **self.kw)
        self.made.append(s)
        return s


LAYOUTS = {
    'same_dir': ('/srv/build/a.min.js', '/srv/build/a.min.js.map', '/srv/src/a.js'),
    'map_deeper': ('/srv/build/a.min.js', '/srv/build/maps/a.min.js.map', '/srv/src/a.js'),
    'map_above': ('/srv/build/js/a.min.js', '/srv/build/a.min.js.map', '/srv/src/lib/a.js'),
    # directory names that extend one another as strings but are different path components (dist / dist-maps / dist-src)
    'prefix_dirs': ('/srv/dist/a.min.js', '/srv/dist-maps/a.min.js.map', '/srv/dist-maps-src/a.js'),
    'relative': ('a.min.js', 'a.min.js.map', 'a.js'),
    'relative_subdir': ('build/a.min.js', 'build/maps/a.min.js.map', 'src/a.js'),
    # names whose UTF-8 JSON text needs the characters + and / of the standard base64 alphabet in an inline map
    'nonascii': ('/srv/build/a~.min.js', '/srv/build/a.min.js.map', '/srv/src/\u043f\u0440\u0438~?.js'),
}
K_RELATIVE = 'write: relative stream names in different directories are left as they are, so the sourceMappingURL / file / sources do not designate the files'
PROGRAM = 'var foo = function(bar) {\n  return bar + 1;\n};\n'
# programs the parser must reject with its own syntax error (re-labelled with the stream name), whatever the error path
BAD_TEXTS = ['var a = ;', "var s = 'abc\\", 'var r = /[/;', "var t = '\\x4';", '@', 'a = 1 /* open']
PROGRAM_NONASCII = 'var \u043f\u0435\u0440\u0435\u043c = function(\u3042\u3044, \u00ff\u00fe) {\n  return \u3042\u3044 + \u00ff\u00fe;\n};\n'


def h_write(mods, out_kind, map_kind, layout, normalize_paths, nodes_kind, printer_kind):
    io_, sm, es5u, parse = mods

    def harness():
        E = sx.E
        ctl = Ctl()
        out_name, map_name, src_name = LAYOUTS[layout]
        tree = parse(PROGRAM_NONASCII if layout == 'nonascii' else PROGRAM)
        tree.sourcepath = src_name
        printer = es5u.pretty_printer() if printer_kind == 'pretty' else es5u.minify_printer(obfuscate=True)

        def ticking(node):
            for frag in printer(node):
                ctl.tick('unparse')
                yield frag
        passed = []
        facts = []
        if out_kind == 'factory':
            o = Factory(ctl, name=out_name)
            facts.append(o)
        else:
            o = Stream(ctl, name=out_name)
            passed.append(o)
        if map_kind == 'none':
            m = None
        elif map_kind == 'same':
            m = o
        elif map_kind == 'factory':
            m = Factory(ctl, name=map_name)
            facts.append(m)
        else:
            m = Stream(ctl, name=map_name)
            passed.append(m)
        nodes = tree if nodes_kind == 'node' else [tree]
        raised = None
        try:
            io_.write(ticking, nodes, o, m, sourcemap_normalize_paths=normalize_paths)
        except Fault as e:
            raised = e
        # ---- closing discipline, on every path
        for fct in facts:
            for s in fct.made:
                E.check(s.closed == 1, 'stream obtained from a factory closed %d times (fault: %r)' % (s.closed, ctl.fired))
            E.check(len(fct.made) <= 1, 'factory called %d times' % len(fct.made))
        for s in passed:
            E.check(s.closed == 0, 'stream passed in already open was closed (fault: %r)' % (ctl.fired,))
        E.check((raised is not None) == (ctl.fired is not None), 'injected fault did not propagate to the caller (fault: %r)' % (ctl.fired,))
        if ctl.fired is not None:
            return
        # ---- fault-free path: content
        if not isinstance(ctl.f, int):
            E.solver.add(ctl.f.e >= ctl.counter)
        ref_out = pyio.StringIO()
        mappings, sources, names = sm.write(printer(tree), ref_out, normalize=True)
        text = ref_out.getvalue()
        ostream = o.made[0] if out_kind == 'factory' else o
        got = ostream.getvalue()
        E.check(got.startswith(text), 'output text is not the printer output')
        tail = got[len(text):]
        if map_kind == 'none':
            E.check(tail == '', 'text after the program although no source map was requested: %r' % tail[:60])
            return
        mstream = ostream if map_kind == 'same' else (m.made[0] if map_kind == 'factory' else m)

        def rel(frm, to):
            # both absolute, or both relative to the same (unknown) working directory: the relative path between them is defined
            if normalize_paths and os.path.isabs(frm) == os.path.isabs(to):
                return os.path.relpath(to, os.path.dirname(frm) or '.').replace(os.sep, '/')
            return to
        if map_kind == 'same':
            prefix = '\n//# sourceMappingURL=data:application/json;base64;charset=utf8,'
            ok = tail.startswith(prefix)
            E.check(ok, 'inline sourceMappingURL missing or malformed: %r' % tail[:80])
            if not ok:
                return
            try:
                doc = json.loads(base64.b64decode(tail[len(prefix):], validate=True).decode('utf8'))
            except ValueError as e:
                E.check(False, 'inline sourceMappingURL payload is not standard base64 of UTF-8 JSON (%s): %r' % (e, tail[len(prefix):][:60]))
                return
            exp_file, exp_sources = rel(out_name, out_name), [rel(out_name, s) for s in sources]
        else:
            exp_url = rel(out_name, map_name)
            E.check(tail == '\n//# sourceMappingURL=%s\n' % exp_url, 'sourceMappingURL %r does not designate the map (expected %r)' % (tail, exp_url))
            try:
                doc = json.loads(mstream.getvalue())
            except ValueError:
                E.check(False, 'map stream does not hold JSON')
                return
            exp_file, exp_sources = rel(map_name, out_name), [rel(map_name, s) for s in sources]
        exp = sm.encode_sourcemap(exp_file, mappings, exp_sources, names)
        E.check(doc == exp, 'source map written differs from the lower-level API result: %r vs %r' % (
            {k: doc.get(k) for k in ('file', 'sources')}, {k: exp.get(k) for k in ('file', 'sources')}))
    return harness


def h_read(mods, kind, bad):
    io_, sm, es5u, parse = mods

    def harness():
        E = sx.E
        ctl = Ctl()
        text = BAD_TEXTS[bad - 1] if bad else PROGRAM

        def parser(t):
            ctl.tick('parse')
            return parse(t)
        if kind == 'factory':
            s = Factory(ctl, name='/srv/src/in.js', text=text)
        else:
            s = Stream(ctl, name='/srv/src/in.js', text=text)
        from calmjs.parse.exceptions import ECMASyntaxError
        raised = None
        result = None
        try:
            result = io_.read(parser, s)
        except Fault as e:
            raised = e
        except ECMASyntaxError as e:
            raised = e
        except Exception as e:
            raised = e              # any other failure of the parser: still a failure the helper must pass on with its streams closed
        made = s.made if kind == 'factory' else []
        for st in made:
            E.check(st.closed == 1, 'stream obtained from a factory closed %d times (fault: %r)' % (st.closed, ctl.fired))
        if kind != 'factory':
            E.check(s.closed == 0, 'stream passed in already open was closed')
        if ctl.fired is not None:
            E.check(isinstance(raised, Fault), 'injected fault did not propagate (got %r)' % (raised,))
            return
        if bad:
            E.check(isinstance(raised, ECMASyntaxError) and str(raised).endswith(" in '/srv/src/in.js'"),
                    'syntax error not re-labelled with the stream name: %r' % (raised,))
        else:
            E.check(raised is None and result is not None and result.sourcepath == '/srv/src/in.js',
                    'tree source is not the stream name')
    return harness


_TL = {}


def _load():
    src = boot.scratch_dir()
    sx.install(src)
    import logging
    logging.disable(logging.CRITICAL)
    from calmjs.parse import io as io_, sourcemap as sm
    from calmjs.parse.unparsers import es5 as es5u
    from calmjs.parse.parsers.es5 import parse
    boot.warm_tabs()
    return io_, sm, es5u, parse


def _task(t):
    kind, args = t
    E = sx.new_engine(max_decisions=3000)
    h = (h_write if kind == 'write' else h_read)(_TL['mods'], *args)
    E.explore(h)
    return kind, args, E.stats(), E.violations[:4], (E.unsupported + E.errors)[:3]


def replay(d):
    """plain package, concrete fault index"""
    import calmjs.parse.io as io_
    import calmjs.parse.sourcemap as sm
    from calmjs.parse.unparsers import es5 as es5u
    from calmjs.parse.parsers.es5 import parse
    w = d['input']
    g = globals()

    class CCtl(g['Ctl']):
        def __init__(self, f):
            self.counter, self.f, self.fired, self.log = 0, f, None, []

        def tick(self, what):
            i = self.counter
            self.counter += 1
            self.log.append(what)
            if self.f == i:
                self.fired = (i, what)
                raise Fault('fault #%d %s' % (i, what))
    msgs = []

    class FakeE:
        solver = type('S', (), {'add': staticmethod(lambda *a: None)})()

        def check(self, cond, msg='', witness=None):
            if not cond:
                msgs.append(msg)
            return bool(cond)
    sx.E = FakeE()
    saved = g['Ctl']
    f = w['fault_index']
    try:
        g['Ctl'] = lambda: CCtl(f)
        mods = (io_, sm, es5u, parse)
        h = (h_write if w['kind'] == 'write' else h_read)(mods, *w['args'])
        h()
    finally:
        g['Ctl'] = saved
    return bool(msgs), 'arrangement %r fault index %r: %s' % (w['args'], f, '; '.join(msgs)[:600] or 'no assertion failed')


def main():
    run = common.Run('C18', 'fault_enumeration')
    _TL['mods'] = _load()
    th = run.thorough()
    tasks = []
    for out_kind in ('factory', 'open'):
        for map_kind in ('none', 'same', 'factory', 'open'):
            for layout in (LAYOUTS if th else ('same_dir', 'map_deeper', 'prefix_dirs', 'relative', 'nonascii', 'relative_subdir')):
                for npaths in (True, False):
                    for nodes_kind in (('node', 'list') if th else ('node',)):
                        for pk in (('pretty', 'minify') if th else ('pretty',)):
                            if map_kind == 'none' and (layout != 'same_dir' or not npaths):
                                continue
                            tasks.append(('write', (out_kind, map_kind, layout, npaths, nodes_kind, pk)))
    for kind in ('factory', 'open'):
        for bad in range(len(BAD_TEXTS) + 1):
            tasks.append(('read', (kind, bad)))
    res = common.pmap(_task, tasks)
    from .. import replay as rp
    tot = dict(paths=0, reached=0, z3_checks=0, assertions=0, solver_s=0.0)
    samples = []
    seen = set()
    for kind, args, st, viols, errs in res:
        for k in tot:
            tot[k] += st[k]
        if st['unsupported'] or st['errors'] or st['bound_hits']:
            run.inconclusive_('%s%r: %r' % (kind, args, errs))
        if st['reached'] < 2:
            run.inconclusive_('%s%r: fewer than 2 paths reached the assertions (vacuous fault model?)' % (kind, args))
        if len(samples) < 4:
            samples.append({'arrangement': [kind] + list(args), 'fault_positions_explored': st['paths'] - 1, 'stats': st})
        for msg, w in viols:
            fi = int(w.get('fault_index', -1)) if str(w.get('fault_index', '')).lstrip('-').isdigit() else MAXTICKS
            key = '%s: %s' % (kind, msg.split(' (fault')[0].split(': {')[0][:120])
            if kind == 'write' and 'relative_subdir' in args:
                key = K_RELATIVE
            if key in seen:
                continue
            seen.add(key)
            rpd = {'property': 'C18', 'input': {'kind': kind, 'args': list(args), 'fault_index': fi}}
            ok, detail = rp.run_in_subprocess(rpd)
            if ok:
                run.violation(key, detail[:600], rpd)
            else:
                run.inconclusive_('violation did not reproduce on the plain package: %s %r %s' % (msg, args, detail[:200]))
    run.coverage.update({
        'evaluations': tot['paths'], 'distinct_nontrivial': tot['reached'],
        'rule': 'one evaluation = one feasible value class of the symbolic fault index (a fault at the k-th stream/parser/unparser call, '
                'or no fault) for one stream arrangement; z3 decides feasibility of each class; distinct by (arrangement, fault position)',
        'samples': samples, 'exhaustive': True,
        'arrangements': len(tasks), 'queries': tot['z3_checks'], 'solver_s': round(tot['solver_s'], 2), 'assertions_discharged': tot['assertions'],
        'functions_encoded': boot.func_fingerprint(_TL['mods'][0].read, _TL['mods'][0].write, _TL['mods'][1].write_sourcemap,
                                                   _TL['mods'][1].verify_write_sourcemap_args),
        'bounds': {'fault_points': 'every call of factory/read/parse/unparse-step/write/writelines, at most one fault per run, <= %d calls' % MAXTICKS,
                   'arrangements': 'output {factory, open} x map {none, same stream, factory, open} x path layouts %r x normalize_paths x printers' % (list(LAYOUTS),),
                   'outside': 'faults raised by close() itself; two faults in one run; symbolic path strings'},
    })
    run.assumptions += ['stream doubles stand for any object with read/write/writelines/close; a fault is an arbitrary exception type',
                        'expected URL/paths computed with os.path.relpath independently of utils.normrelpath']
    return run.finish()
