"""C01 - pretty-printed output parses back to the same tree and is a fix-point (see ppcheck.py / pp.py)"""
from .. import common
from . import ppcheck


def keyfn(kind, msg, itext, cfg):
    return 'C01: %s | %s' % (msg.split(':')[0][:100], itext[:60])


def replay(d):
    return ppcheck.replay_generic(d)


def main():
    run = common.Run('C01', 'other')
    th = run.thorough()
    cfgs = [('pretty', '  '), ('pretty', '\t')] + ([('pretty', ''), ('pretty', ' '), ('pretty', '    ')] if th else [])
    ppcheck.drive(run, 'C01', cfgs, 4 if th else 3, th, keyfn)
    return run.finish()
