"""C08 - emitted fragments carry the true source position of their token.

Leg S (deciding, SX, inductive per production): the node the real p_* action builds from SYMBOLIC slot positions
(vplib/prodsx.py; children position-less) is printed by the real pretty, minify and obfuscating printers; for every
fragment that carries an explicit position z3 decides that it equals the position of a slot of the production whose
first token is spelled like the fragment (for a renamed identifier: like the recorded original name), the k-th
fragment of a spelling on the k-th such slot.  Semicolons of AUTOSEMI slots are exempt.
Leg W (replay): corpus x layouts x printers x with/without comments, two source files chained: the source text at the
fragment's line:column begins with the fragment (or original name) and the fragment names the right file.
"""
import re, sys, time, itertools
import z3
from .. import boot, common, sx, actions, gx, prodsx
from ..sx import SIntZ
from . import c16 as c16mod, c11 as c11mod

PRINTERS = ['pretty', 'minify', 'obfuscate']


def mk_printer(kind):
    from calmjs.parse.unparsers import es5 as u
    if kind == 'pretty':
        return u.pretty_printer('  ')
    if kind == 'minify':
        return u.minify_printer(drop_semi=True)
    return u.minify_printer(obfuscate=True, obfuscate_globals=True)


def harness_for(pr, combo, ctx, pk):
    sp, LexerCls, Node, first, nullable, asttypes = ctx

    def harness():
        E = sx.E
        B = prodsx.build(pr, combo, sp, LexerCls, Node, first, nullable)
        node = B.result
        if not isinstance(node, Node) or all(node is not n for n in B.new_nodes):
            return
        for s in B.slots:
            if s['child'] is not None:
                prodsx.clear_positions(s['child'], Node)
        try:
            frags = list(mk_printer(pk)(node))
        except (KeyError, NotImplementedError, TypeError, AttributeError) as e:
            # node kinds that are not printable on their own (no definition / need a parent) are outside this leg
            E._path_reached = True
            return
        has_auto = any(s['sym'] == 'AUTOSEMI' for s in B.slots)
        seen = {}
        for f in frags:
            if not isinstance(f.lineno, SIntZ) and not isinstance(f.colno, SIntZ):
                continue
            T = f.name if f.name else f.text
            if isinstance(T, str) and T.strip() != T:
                T = T.strip()
            key = ',' if (isinstance(T, str) and re.fullmatch(r',+', T)) else T
            if key == ';' and has_auto:
                continue
            slots = [s for s in B.slots if prodsx.slot_matches_text(s, key, sp, first)]
            k = seen.get(key, 0)
            seen[key] = k + 1
            alts = [z3.And(sx.zint(f.lineno) == s['line'].e, sx.zint(f.colno) == s['col'].e) for s in slots]
            E.check(z3.Or(alts) if alts else z3.BoolVal(False),
                    '%s printer, node %s of `%s`: fragment %r carries a position where no token %r of the production stands' % (pk, type(node).__name__, pr, f.text, key))
            nfr = sum(1 for g in frags if (g.name or g.text) == (f.name or f.text) and isinstance(g.lineno, SIntZ))
            if len(slots) == nfr and k < len(slots):
                # stronger than the property states (it only asks that the text at the position begins with the token):
                # recorded as an observation in the evidence, never as a violation
                s = slots[k]
                if E._check(z3.Not(z3.And(sx.zint(f.lineno) == s['line'].e, sx.zint(f.colno) == s['col'].e))):
                    OBS.add('%s of `%s`: occurrence #%d of %r carries the position of another occurrence of the same token' % (type(node).__name__, pr, k, key))
        E._path_reached = True
    return harness


def _job(args):
    pnum, ci, pk = args
    pr = _TL['prods'][pnum]
    combo = _TL['combos'][pnum][ci]
    E = sx.new_engine(max_decisions=600)
    E.explore(harness_for(pr, combo, _TL['ctx'], pk))
    obs = sorted(OBS)
    OBS.clear()
    return pnum, ci, pk, E.stats(), E.violations[:3], (E.unsupported + E.errors)[:2], obs


_TL = {}
OBS = set()


# ------------------------------------------------------------------------------------------ whole programs
def src_lines(text):
    out = []
    cur = ''
    i = 0
    while i < len(text):
        c = text[i]
        if c == '\r' and text[i + 1:i + 2] == '\n':
            out.append(cur)
            cur = ''
            i += 2
            continue
        if c in '\n\r\u2028\u2029':
            out.append(cur)
            cur = ''
        else:
            cur += c
        i += 1
    out.append(cur)
    return out


def check_fragments(texts, pk, with_comments):
    from calmjs.parse.parsers.es5 import parse
    trees = []
    for i, t in enumerate(texts):
        tr = parse(t, with_comments=with_comments)
        tr.sourcepath = 'file%d.js' % i
        trees.append(tr)
    printer = mk_printer(pk)
    lines = {('file%d.js' % i): src_lines(t) for i, t in enumerate(texts)}
    effective = None
    for tr in trees:
        for f in printer(tr):
            if f.source is not None:
                effective = f.source
            if not f.lineno or not f.colno:
                continue
            T = f.name if f.name else f.text
            T = T.strip(' ')
            if effective != tr.sourcepath:
                return 'fragment %r of %s names source %r (a fragment without a source of its own takes the preceding one)' % (f.text, tr.sourcepath, effective)
            ls = lines[effective]
            if f.lineno > len(ls):
                return 'fragment %r at %d:%d: no such line' % (f.text, f.lineno, f.colno)
            here = ls[f.lineno - 1][f.colno - 1:]
            first = T.split('\n')[0].split('\r')[0].split('\u2028')[0].split('\u2029')[0]
            if re.fullmatch(r',+', T):
                first = ','
            if not here.startswith(first):
                return 'fragment %r (original %r) claims %s %d:%d where the source has %r' % (f.text, f.name, effective, f.lineno, f.colno, here[:12])
    return None


NEST_A = 'function outer(k) {\n  k();\n}\nvar cb = function(p) {\n    return p + 1;\n};\n'
NEST_B = '\n\n      lib(0, placeholder);\n'


def check_nested_sources(pk):
    """sources nested A > B > A: a statement of file B spliced into a function of file A, holding a function expression
    moved in from file A; every positioned fragment must be found at its position in the file it (effectively) names"""
    from calmjs.parse.parsers.es5 import parse
    A, B = parse(NEST_A), parse(NEST_B)
    A.sourcepath = 'fileA.js'
    outer, varstmt = list(A)[0], list(A)[1]
    cb = list(varstmt)[0].initializer
    bstmt = list(B)[0]
    bstmt.sourcepath = 'fileB.js'
    cb.sourcepath = 'fileA.js'
    call = bstmt.expr
    call.args.items[1] = cb
    outer.elements.append(bstmt)
    lines = {'fileA.js': src_lines(NEST_A), 'fileB.js': src_lines(NEST_B)}
    effective = None
    seen = set()
    out = []
    for f in mk_printer(pk)(A):
        if f.source is not None:
            effective = f.source
        if not f.lineno or not f.colno:
            continue
        T = (f.name if f.name else f.text).strip(' ')
        ls = lines.get(effective)
        here = ls[f.lineno - 1][f.colno - 1:] if ls is not None and f.lineno <= len(ls) else None
        if here is None or not here.startswith(T.split('\n')[0]):
            if f.source is None and T in (';', '{', '}'):
                key = K_NESTED_LAYOUT
            else:
                key = 'W nested sources: a %s fragment is attributed to the wrong file' % ('renamed' if f.name else 'token')
            out.append((key, 'fragment %r (original %r) claims %s %d:%d where that file has %r' % (f.text, f.name, effective, f.lineno, f.colno, here and here[:12])))
        seen.add(effective)
    if seen != {'fileA.js', 'fileB.js'}:
        out.append(('W nested sources: harness', 'nested-source harness did not see fragments of both files: %r' % sorted(seen)))
    return out


K_NESTED_LAYOUT = 'W: a positioned layout fragment (; { }) that follows a nested sub-tree of another source file carries no source of its own'


def _prog_job(chunk):
    sp = _TL['sp']
    bad = []
    n = 0
    for w in chunk:
        lay = c11mod.layouts(w, sp)
        for text in lay:
            for pk in PRINTERS:
                for wc in (False, True):
                    try:
                        msg = check_fragments([text, lay[0]], pk, wc)
                    except Exception as e:
                        if type(e).__name__ in ('ECMASyntaxError', 'ECMARegexSyntaxError'):
                            continue
                        msg = 'exception %s: %s' % (type(e).__name__, e)
                    n += 1
                    if msg:
                        bad.append((text, lay[0], pk, wc, msg))
    return n, bad[:3]


def replay(d):
    w = d['input']
    if 'nested' in w:
        msgs = [m for k, m in check_nested_sources(w['nested']) if k == w.get('key', k)]
        return bool(msgs), 'nested sources A > B > A, %s printer: %s' % (w['nested'], '; '.join(msgs[:2]) or 'ok')
    try:
        msg = check_fragments(w['texts'], w['printer'], w['with_comments'])
    except Exception as e:
        msg = 'exception %s: %s' % (type(e).__name__, e)
    return bool(msg), 'sources %r, %s printer, comments=%r: %s' % (w['texts'], w['printer'], w['with_comments'], msg or 'ok')


def main():
    run = common.Run('C08', 'other')
    th = run.thorough()
    boot.load_plain()
    pplain = boot.fresh_parser()
    Tb, G = gx.extract(pplain)
    spw = actions.spellings(type(pplain.lexer))
    from . import ppcheck
    ctxs = ppcheck.c03mod.contexts(G)
    words = [w for w in gx.enumerate_accepted(Tb, G, 3) if 'AUTOSEMI' not in w and w]
    short = {}
    for t in G.terms:
        short[t] = (t,)
    ch = True
    while ch:
        ch = False
        for l, r in G.prods:
            if all(x in short for x in r):
                wv = tuple(y for x in r for y in short[x])
                if l not in short or len(wv) < len(short[l]):
                    short[l] = wv
                    ch = True
    for l, r in G.prods:
        if l in ctxs:
            u, v = ctxs[l]
            w = tuple(u) + tuple(y for x in r for y in short[x]) + tuple(v)
            w = tuple('SEMI' if t == 'AUTOSEMI' else t for t in w)
            if w and gx.lr_run(Tb, list(w)) is not None:
                words.append(w)
    words = list(dict.fromkeys(words))
    if not th:
        words = words[::2]
    src = boot.scratch_dir()
    sx.install(src)
    boot.warm_tabs()
    p = boot.fresh_parser()
    from calmjs.parse.asttypes import Node
    from calmjs.parse import asttypes
    from calmjs.parse.lexers.es5 import Lexer
    Tb2, G2 = gx.extract(p)
    first, nullable = G2.first_sets()
    sh, sp, rec = c16mod.shapes(p)
    prods = p.parser.productions
    combos = {}
    jobs = []
    for pnum, pr in enumerate(prods):
        if pnum == 0:
            continue
        combos[pnum] = prodsx.shape_combos(pr, sh, rec, sp, cap=32 if th else 12)
        for ci in range(len(combos[pnum])):
            for pk in PRINTERS:
                jobs.append((pnum, ci, pk))
    _TL.update(ctx=(sp, Lexer, Node, first, nullable, asttypes), prods=prods, combos=combos, sp=spw)
    res = common.pmap(_job, jobs, chunksize=16)
    tot = dict(paths=0, reached=0, z3_checks=0, assertions=0, solver_s=0.0)
    samples = []
    sviol = {}
    observations = set()
    for pnum, ci, pk, st, viols, errs, obs in res:
        observations |= set(obs)
        for k in tot:
            tot[k] += st[k]
        if st['unsupported'] or st['errors'] or st['bound_hits']:
            run.inconclusive_('%s combo %d %s: %r' % (prods[pnum], ci, pk, errs))
        if len(samples) < 4 and st['assertions'] > 2:
            samples.append({'production': str(prods[pnum]), 'printer': pk, 'stats': st})
        for msg, w in viols:
            sviol.setdefault(msg, (pnum, ci, pk, w))
    chunks = [words[i::64] for i in range(64)]
    pres = common.pmap(_prog_job, chunks)
    nprog = sum(r[0] for r in pres)
    from .. import replay as rp
    seen = set()
    for n, bad in pres:
        for text, t2, pk, wc, msg in bad:
            if 'a fragment without a source of its own' in msg:
                key = 'W: a positioned layout fragment (; { }) that is the first fragment of a file carries no source of its own'
            else:
                key = 'W %s: %s' % (pk, re.sub(r'\d+', 'N', msg)[:100])
            if key in seen or len(seen) >= 12:
                continue
            seen.add(key)
            rpd = {'property': 'C08', 'input': {'texts': [text, t2], 'printer': pk, 'with_comments': wc}}
            ok, detail = rp.run_in_subprocess(rpd)
            if ok:
                run.violation(key, detail[:500], rpd)
            else:
                run.inconclusive_('program failure did not reproduce: %r %s' % (text, msg))
    for msg, (pnum, ci, pk, w) in sviol.items():
        pr = prods[pnum]
        confirmed = False
        if pr.name in ctxs:
            u, v = ctxs[pr.name]
            wd = tuple(u) + tuple(y for x in pr.prod for y in short.get(x, (x,))) + tuple(v)
            wd = tuple('SEMI' if t == 'AUTOSEMI' else t for t in wd)
            lay = c11mod.layouts(wd, spw)
            for text in lay:
                for wc in (False, True):
                    rpd = {'property': 'C08', 'input': {'texts': [text, lay[0]], 'printer': pk, 'with_comments': wc, 'production': str(pr), 'law': msg}}
                    ok, detail = rp.run_in_subprocess(rpd)
                    if ok:
                        run.violation('S: ' + msg, detail[:500], rpd)
                        confirmed = True
                        break
                if confirmed:
                    break
        if not confirmed:
            run.inconclusive_('per-production obligation failed (%s) but the replay programs do not exhibit it' % msg)
    run.leg('W_whole_programs', token_strings=len(words), runs=nprog)
    boot.load_plain()
    for pk in PRINTERS:
        for key in sorted({k for k, m in check_nested_sources(pk)}):
            rpd = {'property': 'C08', 'input': {'nested': pk, 'key': key}}
            ok, detail = rp.run_in_subprocess(rpd)
            if ok:
                run.violation(key, detail[:400], rpd)
            else:
                run.inconclusive_('nested-source failure did not reproduce: %s' % key)
    run.leg('W_nested_sources', printers=len(PRINTERS))
    run.leg('observations_beyond_the_property', items=sorted(observations)[:20])
    run.coverage.update({
        'explanation': 'S: node built by every real p_* action from symbolic slot positions, printed by the real pretty/minify/obfuscating printers; z3 decides '
                       'for every explicitly positioned fragment that its line:column is that of the right token of the production - all layouts at once. '
                       'W: %d concrete printer runs (corpus x layouts x 3 printers x comments on/off, two files chained) against the source text.' % nprog,
        'evaluations': tot['paths'] + nprog, 'distinct_nontrivial': tot['reached'],
        'rule': 'S: one evaluation per (production, child shapes, printer, path); W: one per concrete printer run',
        'samples': samples, 'queries': tot['z3_checks'], 'solver_s': round(tot['solver_s'], 1), 'assertions_discharged': tot['assertions'],
        'bounds': {'S': 'all productions x child shapes (cap %d) x %r' % (32 if th else 12, PRINTERS), 'W': 'corpus (%d token strings) x 6 layouts' % len(words),
                   'outside': 'AUTOSEMI semicolons (exempt by the property); the lexer guarantee (C06) and C11 are assumed in S'},
    })
    run.assumptions += ['ply tracking stub as in C11 (validated by leg W)', 'children print without explicit positions (cleared), so every explicit fragment stems from the node under test']
    return run.finish()
