"""C05 - every `/` is read as division or regex start as the grammar dictates.

Leg S (SX, deciding the "independent of whitespace, comments or line breaks" half): the real Lexer._token /
_get_update_token / _set_tokens run on a raw-token source whose kinds are symbolic; for every placement of layout
items (line terminator, line comment, block comment, multi-line block comment - kind symbolic) among <= n real tokens of
symbolic kind, z3 decides that the face (DIV vs REGEX) given to a following slash-initial item equals the face given
without the layout items.
Leg T (what the grammar dictates; replay against the real tables): for every structure of a table-derived space that
contains a slash token in a known grammatical role, under several layouts, the tree parse(text) builds equals the tree
the real LALR tables + actions build from the token string itself (where DIV / REGEX are given).
"""
import re, sys, time, itertools
import z3
from .. import boot, common, sx, rawsx, gx, actions
from . import lexsx, c03 as c03mod

LAYOUTS_BEFORE = ['', ' ', '\t', '\n', '/*c*/', ' /*c*/ ', '//c\n', '\n\n', '/*\n*/', '\xa0', '\x0b\x0c', '\ufeff\u2003', '\r\n', '\u2028']
KNOWN_HEADER = 'C05: layout between the ) of an if/for/while/with header and a regex literal makes it a division'
KNOWN_FUNCDECL = 'C05: a regex literal after the } of a function declaration is read as a division'
KNOWN_RESERVED_PROP = 'C05: a reserved word used as a property name is treated as an operator/keyword before `/`'


def engine_tree(word, sp, asi_close=False):
    acc, info = c03mod.engine_accepts(list(word), sp, asi_close)
    return info if acc else None


def text_tree(text):
    from calmjs.parse.parsers.es5 import parse
    from calmjs.parse.walkers import ReprWalker
    return ReprWalker().walk(parse(text))


def structures(Tb, G, sp, th):
    """token strings containing a slash token whose role is fixed by the token string itself"""
    from . import ppcheck
    ctx = c03mod.contexts(G)
    short = {}
    for t in G.terms:
        short[t] = (t,)
    ch = True
    while ch:
        ch = False
        for l, r in G.prods:
            if all(x in short for x in r):
                w = tuple(y for x in r for y in short[x])
                if l not in short or len(w) < len(short[l]):
                    short[l] = w
                    ch = True
    base = [w for w in gx.enumerate_accepted(Tb, G, 4 if th else 3) if 'AUTOSEMI' not in w]
    for l, r in G.prods:
        if l in ctx:
            u, v = ctx[l]
            w = tuple(u) + tuple(y for x in r for y in short[x]) + tuple(v)
            w = tuple('SEMI' if t == 'AUTOSEMI' else t for t in w)
            if gx.lr_run(Tb, list(w)) is not None:
                base.append(w)
    base = list(dict.fromkeys(base))
    # nested parentheses / calls in every expression position (paren-stack discipline of the lexer)
    nested = []
    for w in base:
        for i, t in enumerate(w):
            if t == 'ID' and len(w) <= 10:
                for rep in (('ID', 'LPAREN', 'ID', 'RPAREN'), ('LPAREN', 'ID', 'RPAREN'), ('LPAREN', 'LPAREN', 'ID', 'RPAREN', 'RPAREN')):
                    v = w[:i] + rep + w[i + 1:]
                    if gx.lr_run(Tb, list(v)) is not None:
                        nested.append(v)
    base = list(dict.fromkeys(base + nested))
    out = []
    for w in base:
        for i, t in enumerate(w):
            if t in ('ID', 'NUMBER', 'STRING', 'THIS'):
                for rep in (('REGEX',), ('REGEX', 'PERIOD', 'ID'), (t, 'DIV', 'ID'), (t, 'DIV', 'REGEX'), ('REGEX', 'DIV', t), (t, 'DIVEQUAL', 'ID')):
                    v = w[:i] + rep + w[i + 1:]
                    if len(v) <= 16 and gx.lr_run(Tb, list(v)) is not None:
                        out.append(v)
            if t in ('RPAREN', 'RBRACKET', 'RBRACE', 'PLUSPLUS', 'MINUSMINUS'):
                for rep in ((t, 'DIV', 'ID'), (t, 'REGEX', 'PERIOD', 'ID'), (t, 'REGEX')):
                    v = w[:i] + rep + w[i + 1:]
                    if len(v) <= 14 and gx.lr_run(Tb, list(v)) is not None:
                        out.append(v)
    out = list(dict.fromkeys(out + [w for w in base if any(t in ('DIV', 'DIVEQUAL', 'REGEX') for t in w)]))
    return out


def _tjob(chunk):
    sp = _TL['sp']
    bad = []
    n = 0
    sp0 = sp
    for w, rspell in [(w, r) for w in chunk for r in ((None, '/=/', '/[/*]\\//g', '/*/'.replace('*', '\\*')) if 'REGEX' in w else (None,))]:
        # the regex literal also in spellings whose first characters are those of other slash-initial tokens
        sp = sp0 if rspell is None else dict(sp0, REGEX=rspell)
        ref = engine_tree(w, sp)
        if ref is None:
            continue
        toks = [sp[t] for t in w]
        slash = [i for i, t in enumerate(w) if t in ('DIV', 'DIVEQUAL', 'REGEX')]
        for i in slash:
            for lay in (LAYOUTS_BEFORE if rspell is None else LAYOUTS_BEFORE[:4]):
                # a line terminator directly after a restricted keyword or before ++/-- legitimately changes the parse
                if any(c in lay for c in '\n\r\u2028\u2029') and i > 0 and w[i - 1] in ('RETURN', 'BREAK', 'CONTINUE', 'THROW'):
                    continue
                text = ''
                for j, t in enumerate(toks):
                    sep = (lay if j == i else (' ' if j else ''))
                    if j == i and text.endswith('/') and (sep + t)[:1] in '/*':
                        sep = ' ' + sep          # do not build a comment opener out of two tokens
                    text += sep + t
                    if j == i and lay == '':
                        pass
                # tokens must not fuse when the layout is empty: keep a space unless the neighbours are punctuators
                if lay == '' and i > 0 and re.match(r'[\w$]', toks[i - 1][-1:]) and False:
                    continue
                n += 1
                try:
                    got = text_tree(text)
                except Exception as e:
                    got = '%s: %s' % (type(e).__name__, e)
                if got != ref:
                    bad.append((w, text, lay, i, got[:160]))
            # layout between a dot and a reserved word used as a property name, before a following slash
            dots = [j for j in range(1, i) if w[j - 1] == 'PERIOD' and w[j] not in ('ID',)]
            if rspell is None and dots:
                jn = dots[-1]
                for lay in ('\n', '/*c*/', ' //c\n'):
                    text = ' '.join(toks[:jn]) + lay + ' '.join(toks[jn:])
                    n += 1
                    try:
                        got = text_tree(text)
                    except Exception as e:
                        got = '%s: %s' % (type(e).__name__, e)
                    if got != ref:
                        bad.append((w, text, 'DOT' + lay, i, got[:160]))
            # layout between a statement keyword and the ( of its header, for a regex that follows the header
            if rspell is None and w[i] == 'REGEX' and i > 0 and w[i - 1] == 'RPAREN':
                depth, j = 0, i - 1
                while j >= 0:
                    if w[j] == 'RPAREN':
                        depth += 1
                    elif w[j] == 'LPAREN':
                        depth -= 1
                        if depth == 0:
                            break
                    j -= 1
                if j > 0 and w[j - 1] in ('IF', 'FOR', 'WHILE', 'WITH'):
                    for lay in ('\n', '/*c*/', ' //c\n', '\xa0'):
                        text = ' '.join(toks[:j]) + lay + ' '.join(toks[j:])
                        n += 1
                        try:
                            got = text_tree(text)
                        except Exception as e:
                            got = '%s: %s' % (type(e).__name__, e)
                        if got != ref:
                            bad.append((w, text, 'KW' + lay, i, got[:160]))
    return n, bad


KNOWN_HEADER_KW = 'C05: layout between an if/for/while/with keyword and the ( of its header makes a regex literal after the header a division'


def classify(w, i, lay, text):
    if lay.startswith('DOT'):
        return 'C05 T: layout between a dot and a reserved word used as a property name changes the reading of the following `/`'
    if lay.startswith('KW'):
        return KNOWN_HEADER_KW if lay[2:].strip(' \t\xa0') != '' else 'C05 T: white space between a statement keyword and ( changes the reading of a later `/`'
    if i > 0 and w[i - 1] == 'RPAREN' and lay.strip(' \t') != '' and w[i] == 'REGEX':
        # is this ) the end of an if/for/while/with header?
        depth = 0
        for j in range(i - 1, -1, -1):
            if w[j] == 'RPAREN':
                depth += 1
            elif w[j] == 'LPAREN':
                depth -= 1
                if depth == 0:
                    if j > 0 and w[j - 1] in ('IF', 'FOR', 'WHILE', 'WITH'):
                        return KNOWN_HEADER
                    break
    if i > 1 and w[i - 2] == 'PERIOD' and w[i - 1] not in ('ID',):
        return KNOWN_RESERVED_PROP
    if i > 0 and w[i - 1] == 'RBRACE' and w[i] == 'REGEX':
        # } closing the body of a function declaration in statement position?
        depth = 0
        for j in range(i - 1, -1, -1):
            if w[j] == 'RBRACE':
                depth += 1
            elif w[j] == 'LBRACE':
                depth -= 1
                if depth == 0:
                    k = j - 1
                    if k >= 0 and w[k] == 'RPAREN':
                        d2 = 0
                        for m in range(k, -1, -1):
                            if w[m] == 'RPAREN':
                                d2 += 1
                            elif w[m] == 'LPAREN':
                                d2 -= 1
                                if d2 == 0:
                                    if m >= 2 and w[m - 1] == 'ID' and w[m - 2] == 'FUNCTION' and (m == 2 or w[m - 3] in ('SEMI', 'LBRACE', 'RBRACE')):
                                        return KNOWN_FUNCDECL
                                    if m >= 1 and w[m - 1] == 'FUNCTION' and (m == 1 or w[m - 2] in ('SEMI', 'LBRACE', 'RBRACE')):
                                        return KNOWN_FUNCDECL
                                    break
                    break
    return 'C05 T: `/` misread (%s after %s%s)' % (w[i], w[i - 1] if i else '<start>', ', layout with line terminator/comment' if lay.strip(' \t') else '')


RAW_SPELL = {'LINE_TERMINATOR': '\n', 'LINE_COMMENT': '//c\n', 'BLOCK_COMMENT': '/*c*/', 'BLOCK_COMMENT_ML': '/*c\nd*/', 'STRING_ML': "'a\\\nb'",
             'DIV': '/r/', 'REGEX': '/r/'}


def lexer_types(text, with_comments=False):
    """types of the real tokens the real Lexer reads from text (AUTOSEMI included), or an error marker"""
    from calmjs.parse.lexers.es5 import Lexer
    from calmjs.parse.exceptions import ECMASyntaxError
    L = Lexer(with_comments=with_comments)
    L.input(text)
    out = []
    try:
        for _ in range(400):
            t = L.token()
            if t is None:
                break
            out.append(t.type)
    except ECMASyntaxError as e:
        out.append('error')
    return out


def replay_raw_slash(w, sp):
    ka = w['raw_kinds']
    kb = [k for k in ka if k not in rawsx.LAYOUT]
    ta = ' '.join(RAW_SPELL.get(k, sp.get(k, k)) for k in ka)
    tb = ' '.join(RAW_SPELL.get(k, sp.get(k, k)) for k in kb)
    a, b = lexer_types(ta, w.get('with_comments', False)), lexer_types(tb, w.get('with_comments', False))
    # the reading of the last slash item: a regex literal is one token, a division gives DIV ID DIV
    face = lambda ts: 'REGEX' if ts[-1:] == ['REGEX'] else ('DIV' if ts[-3:] == ['DIV', 'ID', 'DIV'] else 'error')
    legit = len(kb) >= 2 and kb[-2] in ('BREAK', 'CONTINUE', 'RETURN', 'THROW')
    return (face(a) != face(b) and not legit), 'with layout %r the final `/r/` is read as %s, without it (%r) as %s' % (ta, face(a), tb, face(b))


def replay(d):
    w = d['input']
    p = boot.fresh_parser()
    sp = actions.spellings(type(p.lexer))
    if 'raw_kinds' in w:
        return replay_raw_slash(w, sp)
    c03mod._ENGINE['p'] = p
    ref = engine_tree(w['tokens'], sp)
    try:
        got = text_tree(w['text'])
    except Exception as e:
        got = '%s: %s' % (type(e).__name__, e)
    return (ref is not None and got != ref), 'text %r: parse() gives %s; the tables on the token string %r give %s' % (
        w['text'], got[:200], ' '.join(w['tokens']), (ref or 'reject')[:200])


_TL = {}


def _sjob(args):
    nreal, placement, wc = args
    E, st = lexsx.run(lexsx.h_slash(_TL['Lexer'], _TL['dom'], nreal, placement, True, wc))
    return args, st, E.violations[:3], (E.unsupported + E.errors)[:2]


def main():
    run = common.Run('C05', 'other')
    th = run.thorough()
    boot.load_plain()
    boot.warm_tabs()
    p = boot.fresh_parser()
    c03mod._ENGINE['p'] = p
    Tb, G = gx.extract(p)
    sp = actions.spellings(type(p.lexer))
    structs = structures(Tb, G, sp, th)
    if not th:
        structs = structs[::5]
    # a regex literal as the body of every kind of header statement (always included)
    for w in (('IF', 'LPAREN', 'ID', 'RPAREN', 'REGEX', 'PERIOD', 'ID', 'SEMI'), ('WHILE', 'LPAREN', 'ID', 'RPAREN', 'REGEX', 'PERIOD', 'ID', 'SEMI'),
              ('WITH', 'LPAREN', 'ID', 'RPAREN', 'REGEX', 'PERIOD', 'ID', 'SEMI'), ('FOR', 'LPAREN', 'SEMI', 'SEMI', 'RPAREN', 'REGEX', 'PERIOD', 'ID', 'SEMI'),
              ('FOR', 'LPAREN', 'ID', 'IN', 'ID', 'RPAREN', 'REGEX', 'PERIOD', 'ID', 'SEMI'), ('IF', 'LPAREN', 'ID', 'RPAREN', 'WITH', 'LPAREN', 'ID', 'RPAREN', 'REGEX', 'SEMI'),
              ('IF', 'LPAREN', 'ID', 'LPAREN', 'ID', 'RPAREN', 'RPAREN', 'REGEX', 'PERIOD', 'ID', 'SEMI'), ('WHILE', 'LPAREN', 'LPAREN', 'ID', 'RPAREN', 'DIV', 'NUMBER', 'RPAREN', 'SEMI')):
        if gx.lr_run(Tb, list(w)) is not None and w not in structs:
            structs.append(w)
    # reserved words used as property names before a slash (always included)
    for kw in ('RETURN', 'IF', 'TYPEOF', 'IN', 'WHILE', 'THIS', 'NEW'):
        for w in (('ID', 'EQ', 'ID', 'PERIOD', kw, 'DIV', 'NUMBER', 'DIV', 'ID', 'SEMI'),
                  ('ID', 'EQ', 'ID', 'PERIOD', kw, 'LPAREN', 'ID', 'RPAREN', 'DIV', 'NUMBER', 'DIV', 'ID', 'SEMI')):
            if gx.lr_run(Tb, list(w)) is not None and w not in structs:
                structs.append(w)
    _TL['sp'] = sp
    chunks = [structs[i::64] for i in range(64)]
    tres = common.pmap(_tjob, chunks)
    ntext = sum(r[0] for r in tres)
    from .. import replay as rp
    pending = {}
    for n, bad in tres:
        for w, text, lay, i, got in bad:
            key = classify(w, i, lay, text)
            pending.setdefault(key, {'property': 'C05', 'input': {'tokens': list(w), 'text': text, 'layout': lay, 'slash_index': i}})
    for key, rpd in list(pending.items())[:25]:
        ok, detail = rp.run_in_subprocess(rpd)
        if ok:
            run.violation(key, detail[:500], rpd)
        else:
            run.inconclusive_('text-level difference did not reproduce: %s %s' % (key, detail[:200]))
    # ---- leg S
    src = boot.scratch_dir()
    sx.install(src)
    from calmjs.parse.lexers.es5 import Lexer
    dom = rawsx.RawDomain(Lexer)
    _TL.update(Lexer=Lexer, dom=dom)
    jobs = []
    maxreal = 3 if th else 2
    for nreal in range(0, maxreal + 1):
        gaps = list(range(nreal + 1))
        for k in (1, 2):
            for placement in itertools.combinations_with_replacement(gaps, k):
                for wc in (False, True):
                    jobs.append((nreal, placement, wc))
    sres = common.pmap(_sjob, jobs)
    tot = dict(paths=0, reached=0, z3_checks=0, assertions=0, solver_s=0.0)
    samples = []
    for args, st, viols, errs in sres:
        for k in tot:
            tot[k] += st[k]
        if st['unsupported'] or st['errors'] or st['bound_hits']:
            run.inconclusive_('slash harness %r: %r' % (args, errs))
        if st['reached'] == 0:
            run.inconclusive_('slash harness %r vacuous' % (args,))
        if len(samples) < 3:
            samples.append({'harness': 'slash', 'args': repr(args), 'stats': st})
        for msg, w in viols[:1]:
            names = dom.names
            kinds = [names[int(v)] for k, v in sorted(w.items(), key=lambda kv: int(kv[0][1:]) if kv[0][1:].isdigit() else -1) if re.fullmatch(r'k\d+', k) and str(v).isdigit()]
            rpd = {'property': 'C05', 'input': {'raw_kinds': kinds, 'with_comments': bool(args[2])}}
            ok, detail = rp.run_in_subprocess(rpd)
            if ok:
                prev = [k for k in kinds if k not in rawsx.LAYOUT][-2:-1]
                run.violation('C05 S: the reading of `/` after %s changes when layout is inserted' % (prev[0] if prev else 'the start'), detail[:400], rpd)
            else:
                run.inconclusive_('slash decision depends on layout for raw kinds %r (%s) - did not reproduce on text: %s' % (kinds, msg[:100], detail[:160]))
    # known findings still there?
    for f in run.known:
        probe = {KNOWN_HEADER: (['IF', 'LPAREN', 'ID', 'RPAREN', 'REGEX', 'SEMI'], 'if ( a )\n/r/ ;'),
                 KNOWN_RESERVED_PROP: (['ID', 'PERIOD', 'RETURN', 'DIV', 'NUMBER', 'DIV', 'NUMBER', 'SEMI'], 'a . return / 1 / 1 ;'),
                 KNOWN_FUNCDECL: (['FUNCTION', 'ID', 'LPAREN', 'RPAREN', 'LBRACE', 'RBRACE', 'REGEX', 'SEMI'], 'function a ( ) { } /r/ ;')}.get(f['key'])
        if probe:
            ok, detail = rp.run_in_subprocess({'property': 'C05', 'input': {'tokens': probe[0], 'text': probe[1]}})
            if ok:
                run.known_hit[f['key']] = f['what']
    run.coverage.update({
        'explanation': 'S: real Lexer wrapper code under SX on raw tokens of symbolic kind, relational check with/without layout items for every placement; '
                       'T: %d texts (table-derived structures with a slash token in every grammatical role x %d layouts) through parse(), compared with the tree '
                       'the real tables+actions build from the token string.' % (ntext, len(LAYOUTS_BEFORE)),
        'evaluations': tot['paths'] + ntext, 'distinct_nontrivial': tot['reached'] + len(structs),
        'rule': 'S: one evaluation per SX path (class of raw kind sequences); T: one per text', 'samples': samples + [{'T_structures': len(structs), 'example': ' '.join(structs[len(structs) // 2]) if structs else ''}],
        'queries': tot['z3_checks'], 'solver_s': round(tot['solver_s'], 1), 'assertions_discharged': tot['assertions'],
        'bounds': {'S': '<= %d real tokens before the slash, <= 2 layout items, all kinds symbolic' % maxreal, 'T': '%d structures' % len(structs),
                   'outside': 'longer contexts in S; regex/division spellings other than the canonical ones'},
    })
    run.assumptions += ['raw-token source models the regex level: a slash-initial text is DIV in INITIAL mode and REGEX in regex mode',
                        'token-level reference: the real LALR tables and actions on the given token string (C03 relates them to ES5)']
    return run.finish()
