"""C12 - any input either parses or raises the ECMAScript syntax error, only.

Leg P (SX, one step of the yacc error hook from an ARBITRARY lexer state): Parser.p_error / _raise_syntax_error /
format_lex_token run on a lexer double whose optional parts are symbolic choices - offending token (None / automatic /
real of symbolic kind), lexer.cur_token and lexer.valid_prev_token (None or a token of symbolic kind), result of
auto_semi / backtracked_token / token() - z3 decides every branch on a kind; every path must end in a returned token or in
ECMASyntaxError (any other exception type is a violation).
Leg E (exhaustive enumeration, replay level): every string of length <= 3 (thorough 4) over a lexical alphabet of class
representatives, and every truncation / single-character corruption of corpus programs, through parse(): terminates,
only ECMASyntaxError (or its regex subclass) escapes, and every 'text' at line:col quoted in the message occurs there.
"""
import re, sys, ast, itertools, signal, time
import z3
from .. import boot, common, sx, rawsx, gx, actions

ALPHA_Q = list("aexuEX$_0178.9") + list("\"'\\/*+-=<>!&|^~?:;,(){}[]%#@`") + [' ', '\t', '\n', '\r', '\x0b', '\xa0', '\u2028', '\u2029', '\ufeff', '\xe9', '\u0300', '\u0660', '\u20ac']
ALPHA_T = list("aeux0189.\"'\\/*+-=<!&|?:;,(){}[]") + [' ', '\n', '\r', '\u2028', '\xe9', '\u0300', '\u20ac']


class Timeout(Exception):
    pass


def _alarm(sig, frm):
    raise Timeout()


def offset_of(text, line, col):
    ln, start, i = 1, 0, 0
    n = len(text)
    while ln < line and i < n:
        c = text[i]
        if c == '\r' and text[i + 1:i + 2] == '\n':
            i += 2
            ln += 1
            start = i
            continue
        if c in '\n\r\u2028\u2029':
            ln += 1
            start = i + 1
        i += 1
    if ln != line:
        return None
    # the column must lie on that line (at most one past its last character)
    j = start
    while j < n and text[j] not in '\n\r\u2028\u2029':
        j += 1
    if col - 1 > j - start:
        return None
    return start + col - 1


QUOTED = re.compile(r"""((?:'(?:[^'\\]|\\.)*'|"(?:[^"\\]|\\.)*"))\s+at\s+(\d+):(\d+)""", re.S)


def check_message(text, msg):
    m0 = re.match(r"Error parsing regular expression '(.*)' at (\d+):(\d+)$", msg, re.S)
    if m0:
        # this message embeds the raw text (not its repr)
        off = offset_of(text, int(m0.group(2)), int(m0.group(3)))
        if off is None or not text[off:].startswith(m0.group(1)):
            return 'message %r: the quoted text does not occur at %s:%s' % (msg, m0.group(2), m0.group(3))
        return None
    for m in QUOTED.finditer(msg):
        try:
            q = ast.literal_eval(m.group(1))
        except Exception:
            continue
        line, col = int(m.group(2)), int(m.group(3))
        if q.endswith('...'):
            q = q[:-3]
        off = offset_of(text, line, col)
        if off is None or not (0 <= off <= len(text)):
            return 'message %r quotes %d:%d which is not a position of the input' % (msg, line, col)
        here = text[off:]
        if not (here.startswith(q) or here.lstrip().startswith(q.strip()) or (q == ';' and col == 0)):
            return 'message %r: %r does not occur at %d:%d (found %r)' % (msg, q, line, col, here[:10])
    return None


def judge(text):
    from calmjs.parse.parsers.es5 import parse
    from calmjs.parse.exceptions import ECMASyntaxError
    # CPU-time budget (user time of this process), so that a loaded machine cannot turn a slow parse into "does not terminate"
    signal.signal(signal.SIGVTALRM, _alarm)
    signal.setitimer(signal.ITIMER_VIRTUAL, 30)
    old_limit = sys.getrecursionlimit()
    sys.setrecursionlimit(1000)          # CPython's default: what a user of the library runs under (the GX engine raises it)
    try:
        try:
            parse(text)
            return None
        except ECMASyntaxError as e:
            return check_message(text, str(e))
        except Timeout:
            return 'parse does not terminate within 30 s of CPU time'
        except RecursionError as e:
            return 'RecursionError escapes'
        except Exception as e:
            return '%s escapes from parse(): %s' % (type(e).__name__, str(e)[:100])
    finally:
        signal.setitimer(signal.ITIMER_VIRTUAL, 0)
        sys.setrecursionlimit(old_limit)


def _ejob(chunk):
    bad = []
    n = 0
    for text in chunk:
        n += 1
        msg = judge(text)
        if msg:
            bad.append((text, msg))
    return n, bad[:50]


K_STRING_BACKTRACK = 'C12 E: an unterminated string literal made of octal-looking escapes takes exponential time (parse does not return)'


def key_of(text, msg):
    if 'does not terminate' in msg and re.fullmatch(r'x = [\'"](?:\\[0-7]{1,3})+\n?', text):
        return K_STRING_BACKTRACK
    if 'does not terminate' in msg:
        return 'C12 E: parse does not return: ' + re.sub(r'(.)\1{5,}', lambda m: m.group(1) + '{n}', text)[:50]
    m = re.match(r'(\w+) escapes', msg)
    if m:
        return 'C12 E: %s escapes from parse()' % m.group(1)
    if 'does not occur at' in msg or 'not a position' in msg:
        kind = re.sub(r"'(?:[^'\\]|\\.)*'|\"(?:[^\"\\]|\\.)*\"|\d+", '..', msg.split('message ')[1])[:60] if 'message ' in msg else ''
        return 'C12 E: quoted position wrong in: %s' % kind
    return 'C12 E: ' + msg[:80]


# ------------------------------------------------------------------------------------------ leg P
def h_perror(ParserCls, LexerMod, dom):
    from calmjs.parse.exceptions import ECMASyntaxError
    import ply.lex as lex

    def mk(kindvar, value='v'):
        t = lex.LexToken()
        t.type = rawsx.SKind(kindvar, dom)
        t.value, t.lineno, t.lexpos, t.colno = value, 1, 0, 1
        return t

    def harness():
        E = sx.E
        P = ParserCls.__new__(ParserCls)

        class L:
            pass
        lx = L()
        kv = [z3.Int('kind%d' % i) for i in range(5)]
        for v in kv:
            E.solver.add(v >= 0, v < len(dom.names))
        opt = lambda i: None if E.pick(2) == 0 else mk(kv[i])
        lx.cur_token = opt(0)
        lx.valid_prev_token = opt(1)
        semi = opt(2)
        bt = mk(kv[3])
        nxt = opt(4)
        lx.auto_semi = lambda tok: semi
        lx.backtracked_token = lambda pos=1: bt
        lx.token = lambda: nxt
        P.lexer = lx

        class YP:
            def errok(self):
                YP.ok = True
        P.parser = YP()
        which = E.pick(3)
        if which == 0:
            token = None
        elif which == 1:
            token = LexerMod.AutoLexToken()
            token.type, token.value, token.lineno, token.lexpos, token.colno = 'AUTOSEMI', ';', 1, 0, 0
        else:
            kt = z3.Int('tokkind')
            E.solver.add(kt >= 0, kt < len(dom.names))
            token = mk(kt)
        # contract of the real auto_semi (decided in C04's S leg): at end of input (token None) a semicolon is always supplied
        if token is None and semi is None:
            raise sx.SXInfeasible()
        try:
            r = P.p_error(token)
            E.check(r is not None, 'p_error returned None (yacc would enter its own error recovery)')
        except ECMASyntaxError:
            E._path_reached = True
    return harness


def replay(d):
    w = d['input']
    if 'text' in w:
        msg = judge(w['text'])
        return bool(msg), 'input %r: %s' % (w['text'], msg or 'ok')
    raise common.HarnessError('no concrete replay for this input')


def main():
    run = common.Run('C12', 'other')
    th = run.thorough()
    boot.load_plain()
    boot.warm_tabs()
    p = boot.fresh_parser()
    Tb, G = gx.extract(p)
    sp = actions.spellings(type(p.lexer))
    alpha = ALPHA_Q
    strings = ['']
    for n in (1, 2, 3):
        strings += [''.join(t) for t in itertools.product(alpha, repeat=n)]
    if th:
        strings += [''.join(t) for t in itertools.product(ALPHA_T, repeat=4)]
    # truncations and single-character corruptions of corpus programs
    from . import c04 as c04mod
    corpus = [' '.join(sp[t] for t in w) for w in c04mod.structures(Tb, G, sp, False)[::(3 if th else 12)]]
    corpus += ["x = 'a\\\nb' + \"c\\x41\\u0042\" + /re[/]\\/x/g.test(y) /* c */ // d\n;", 'function f(a){return a?{get b(){}, set b(c){}}:[,,1]}']
    mut = []
    for t in corpus:
        for i in range(len(t) + 1):
            mut.append(t[:i])
        for i in range(0, len(t), 2):
            for c in ("'", '\\', '/', '\n', '(', '}', '#', '\xe9'):
                mut.append(t[:i] + c + t[i + 1:])
    strings += mut
    # long runs of skipped input and deep nesting (no recursion per skipped token / per nesting level in the lexer)
    for unit in ('\n', '\r\n', ' ', '//c\n', '/*c*/', '/*\n*/\n', '\u2028', ';'):
        for n in (1200, 5000):
            strings += [unit * n, unit * n + 'a', 'a' + unit * n + 'b', 'a = 1' + unit * n + '/ 2 /', unit * n + '#']
    for n in (300, 2000):
        strings += ['(' * n, '(' * n + 'a' + ')' * n, '[' * n + ']' * n, '{' * n + '}' * n, 'a' + '.b' * n, 'a' + '+a' * n, '!' * n + 'a', 'x=' * n + '1', "'" + 'a' * n * 10, '/' + 'a' * n * 10, 'a' * n * 10]
    # look-aheads and alternations that could backtrack without bound: contextual get/set followed by long layout and no
    # property name; unterminated string literals whose escapes have several readings
    for kw in ('get', 'set'):
        for ws in (' ', '\t', '\n', ' \n', '/**/', ' /*c*/'):
            for tail in (': 1 })', '(key)', '+ 1', '', ', b', '// x'):
                for n in (28, 60):
                    strings += ['({ ' + kw + ws * n + tail, 'cache.' + kw + ws * n + tail]
    for esc in ('\\11', '\\0', '\\1\\01', '\\x4', 'a\\\n'):
        for q in ("'", '"'):
            strings += ['x = ' + q + esc * 20 + '\n', 'x = ' + q + esc * 20]
    strings = list(dict.fromkeys(strings))
    chunks = [strings[i::256] for i in range(256)]
    eres = common.pmap(_ejob, chunks)
    nstr = sum(r[0] for r in eres)
    from .. import replay as rp
    pending = {}
    for n, bad in eres:
        for text, msg in bad:
            pending.setdefault(key_of(text, msg), (text, msg))
    for key, (text, msg) in list(pending.items())[:25]:
        rpd = {'property': 'C12', 'input': {'text': text}}
        ok, detail = rp.run_in_subprocess(rpd)
        if ok:
            run.violation(key, detail[:400], rpd)
        else:
            run.inconclusive_('failure did not reproduce: %r %s' % (text, msg))
    # ---- leg P
    src = boot.scratch_dir()
    sx.install(src)
    from calmjs.parse.parsers import es5 as pmod
    from calmjs.parse.lexers import es5 as lmod, tokens as tmod
    dom = rawsx.RawDomain(lmod.Lexer)
    E = sx.new_engine(max_decisions=4000)
    E.catch_errors = True
    E.explore(h_perror(pmod.Parser, tmod, dom))
    st = E.stats()
    if st['unsupported'] or st['bound_hits']:
        run.inconclusive_('p_error harness: %r' % (E.unsupported[:2],))
    for err in E.errors[:5]:
        # a foreign exception escaping the real hook from some lexer state: is that state reachable?  replayed through short
        # inputs by leg E; recorded as inconclusive when no input exhibits it
        run.inconclusive_('p_error raises a foreign exception from a symbolic lexer state: %s' % err[:200])
    for msg, w in E.violations[:2]:
        run.inconclusive_('p_error: %s' % msg)
    run.leg('P_error_hook', **st)
    run.coverage.update({
        'explanation': 'P: one step of the real yacc error hook from an arbitrary symbolic lexer state (z3 decides every test on a token kind; optional parts are '
                       'explored both ways); E: %d inputs (all strings of length <= %d over %d class representatives, truncations and corruptions of %d corpus programs) through '
                       'parse() with exception-type, termination and message-position checks.' % (nstr, 4 if th else 3, len(alpha), len(corpus)),
        'evaluations': nstr + st['paths'], 'distinct_nontrivial': nstr,
        'rule': 'E: one evaluation per distinct input string; P: one per SX path', 'exhaustive': True,
        'samples': [{'P': st}, {'E_examples': strings[5000:5005]}],
        'queries': st['z3_checks'], 'solver_s': st['solver_s'],
        'bounds': {'E': 'length <= %d over %r' % (4 if th else 3, ''.join(alpha)), 'outside': 'longer arbitrary strings; the lexer error handlers are exercised only through leg E'},
    })
    run.assumptions += ['class representatives stand for their classes with respect to the lexer patterns']
    return run.finish()
