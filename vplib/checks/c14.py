"""C14 - unparsing is pure: tree unchanged, printers reusable, shortcuts agree.

SX harness over a symbolic HISTORY: one printer object P (pretty / minify+obfuscate / obfuscate+indent rule stack /
minify drop_semi), a first call on tree X that is abandoned after a SYMBOLIC number k of fragments (z3 Int compared
with the fragment counter: the explored paths are exactly the feasible abandon points plus exhaustion) or that raises
mid-way (a tree with a node the printer has no definition for, nested in blocks), then a second call on tree A: its
fragment sequence must equal that of a fresh printer of the same configuration, and a deep snapshot (all attributes,
positions included) of every tree is unchanged.  Histories of length 3 chain two such prefixes.  Shortcut entry points
(str(node), es5.pretty_print / es5.minify_print on text) are compared with the explicit calls.
"""
import sys, itertools, time
import z3
from .. import boot, common, sx
from ..sx import SIntZ

PROGRAMS = [
    'function f(a, b) { var c = a + b; if (c) { return { k: [c, , 1], get g() { return c; } }; } else { switch (a) { case 1: b++; default: c--; } } }',
    'var x = function(y) { try { throw y; } catch (e) { for (var i = 0; i < 3; i++) { x(i); } } finally { while (0); } };',
    'a = [, , 1, , ]; s = "x\\\ny" + \'p\\\r\nq\' + /r\\/e/g.source + 0x1F + 1.50e+3;',
]
CONFIGS = ['pretty', 'minobf', 'obfindent', 'dropsemi', 'minobfglobals', 'exampleindent']


def big_scope_program(n=300):
    names = ['v%d' % i for i in range(n)]
    return 'function big(p) { var %s; try { p(); } catch (err) { return %s; } }' % (', '.join(names), ' + '.join(names[:5] + names[-5:]))


OTHER = {'minobf': 'minobfglobals', 'minobfglobals': 'minobf', 'obfindent': 'minobf'}


def mk(cfg):
    from calmjs.parse.unparsers import es5 as u
    from calmjs.parse import rules
    if cfg == 'pretty':
        return u.pretty_printer('  ')
    if cfg == 'minobf':
        return u.minify_printer(obfuscate=True)
    if cfg == 'minobfglobals':
        return u.minify_printer(obfuscate=True, obfuscate_globals=True, shadow_funcname=True)
    if cfg == 'dropsemi':
        return u.minify_printer(drop_semi=True)
    if cfg == 'exampleindent':
        # the stand-alone example rule set of handlers.indentation (what the repository's own unparser tests combine)
        from calmjs.parse.handlers.indentation import indent as example_indent
        from calmjs.parse.handlers.core import default_rules
        return u.Unparser(rules=(default_rules, example_indent('  ')))
    return u.Unparser(rules=(rules.obfuscate(obfuscate_globals=True), rules.indent(indent_str='\t')))


def snapshot(tree):
    from calmjs.parse.asttypes import Node
    seen = {}

    def rec(v):
        if isinstance(v, Node):
            if id(v) in seen:
                return ('ref', seen[id(v)])
            seen[id(v)] = len(seen)
            return (type(v).__name__, tuple(sorted((k, rec(x)) for k, x in vars(v).items())))
        if isinstance(v, dict):
            return ('dict', tuple(sorted((repr(k), rec(x)) for k, x in v.items())))
        if isinstance(v, (list, tuple)):
            return ('seq', tuple(rec(x) for x in v))
        return repr(v)
    return rec(tree)


def frs(printer, tree):
    return [tuple(f) for f in printer(tree)]


class Bogus(object):
    pass


def h_history(cfg, xi, ai, mode, depth=1):
    """mode: 'abandon' (symbolic k) | 'raise'"""
    def harness():
        from calmjs.parse.parsers.es5 import parse
        from calmjs.parse import asttypes
        E = sx.E
        trees = [parse(t) for t in _TL['texts']]
        snaps = [snapshot(t) for t in trees]
        P = mk(cfg)
        for step in range(depth if mode != 'interleave' else 0):
            X = trees[(xi + step) % len(trees)]
            if mode == 'abandon':
                k = SIntZ(z3.Int('k%d' % step))
                E.solver.add(k.e >= 0, k.e <= 400)
                g = P(X)
                i = 0
                for f in g:
                    if k == i:
                        break
                    i += 1
                    if i > 400:
                        raise sx.SXBound()
                g.close()
            else:
                # a node the printer has no definition for, nested inside the blocks of X
                class Unknown(asttypes.Node):
                    pass
                X2 = parse(_TL['texts'][(xi + step) % len(trees)])
                blocks = [n for n in _walk(X2) if isinstance(n, asttypes.Block)]
                if blocks:
                    blocks[-1]._children_list.append(Unknown())
                try:
                    list(P(X2))
                    E.check(not blocks, 'printer did not raise on a node without definition')
                except Exception:
                    pass
        A = trees[ai]
        if mode == 'interleave':
            # P's generator over A is suspended after a SYMBOLIC number of fragments, another printer object (a differently
            # configured obfuscating one) prints the same tree and another tree in full, then P's generator is resumed
            exp = frs(mk(cfg), A)
            Q = mk(OTHER.get(cfg, 'minobf'))
            k = SIntZ(z3.Int('k0'))
            E.solver.add(k.e >= 0, k.e <= len(exp))
            got, done = [], False
            for f in P(A):
                if not done and k == len(got):
                    done = True
                    frs(Q, A)
                    frs(Q, trees[xi])
                got.append(tuple(f))
                if len(got) > 4000:
                    raise sx.SXBound()
            E.check(got == exp, 'a %s printer whose run is interleaved with a run of another printer object over the same tree yields a different fragment sequence' % cfg)
            for t, s0 in zip(trees, snaps):
                E.check(snapshot(t) == s0, 'unparsing modified the tree')
            return
        got = frs(P, A)
        exp = frs(mk(cfg), A)
        E.check(got == exp, 'a reused %s printer yields a different fragment sequence than a fresh one (after %s)' % (cfg, mode))
        again = frs(P, A)
        E.check(again == exp, 'the third use of a %s printer differs' % cfg)
        for t, s0 in zip(trees, snaps):
            E.check(snapshot(t) == s0, 'unparsing modified the tree')
    return harness


def _walk(n):
    for c in n:
        yield c
        for s in _walk(c):
            yield s


def _job(args):
    cfg, xi, ai, mode, depth = args
    E = sx.new_engine(max_decisions=2000)
    E.explore(h_history(cfg, xi, ai, mode, depth))
    return args, E.stats(), E.violations[:2], (E.unsupported + E.errors)[:2]


_TL = {}


def concrete_history(cfg, xi, ai, mode, ks):
    """plain replay of one history"""
    from calmjs.parse.parsers.es5 import parse
    from calmjs.parse import asttypes
    texts = _TL['texts']
    trees = [parse(t) for t in texts]
    snaps = [snapshot(t) for t in trees]
    P = mk(cfg)
    if mode == 'interleave':
        A = trees[ai]
        exp = frs(mk(cfg), A)
        Q = mk(OTHER.get(cfg, 'minobf'))
        got = []
        for f in P(A):
            if len(got) == ks[0]:
                frs(Q, A)
                frs(Q, trees[xi])
            got.append(tuple(f))
        if got != exp:
            return '%s printer suspended after %d fragments while another printer prints the same tree, then resumed: %r... vs uninterrupted %r...' % (
                cfg, ks[0], ''.join(f[0] for f in got)[:80], ''.join(f[0] for f in exp)[:80])
        if any(snapshot(t) != s for t, s in zip(trees, snaps)):
            return 'unparsing modified a tree'
        return None
    for step, k in enumerate(ks):
        X = trees[(xi + step) % len(trees)]
        if mode == 'abandon':
            g = P(X)
            for i, f in enumerate(g):
                if i == k:
                    break
            g.close()
        else:
            class Unknown(asttypes.Node):
                pass
            X2 = parse(texts[(xi + step) % len(trees)])
            blocks = [n for n in _walk(X2) if isinstance(n, asttypes.Block)]
            if blocks:
                blocks[-1]._children_list.append(Unknown())
            try:
                list(P(X2))
            except Exception:
                pass
    A = trees[ai]
    got = frs(P, A)
    exp = frs(mk(cfg), A)
    if got != exp:
        return 'reused %s printer differs from a fresh one: %r... vs %r...' % (cfg, ''.join(f[0] for f in got)[:80], ''.join(f[0] for f in exp)[:80])
    if any(snapshot(t) != s for t, s in zip(trees, snaps)):
        return 'unparsing modified a tree'
    return None


def shortcuts():
    from calmjs.parse import es5
    from calmjs.parse.unparsers.es5 import pretty_print, minify_print
    from calmjs.parse.parsers.es5 import parse
    bad = []
    for t in _TL['texts']:
        tree = parse(t)
        if str(tree) != pretty_print(tree):
            bad.append('str(node) != pretty_print(node) for %r' % t[:40])
        if es5.pretty_print(t) != pretty_print(parse(t)):
            bad.append('es5.pretty_print(text) != pretty_print(parse(text)) for %r' % t[:40])
        if es5.minify_print(t) != minify_print(parse(t)):
            bad.append('es5.minify_print(text) != minify_print(parse(text)) for %r' % t[:40])
        for kw in ({'obfuscate': True}, {'drop_semi': True}, {'obfuscate': True, 'obfuscate_globals': True}):
            if es5.minify_print(t, **kw) != minify_print(parse(t), **kw):
                bad.append('es5.minify_print(text, %r) differs' % kw)
        # options passed positionally (the documented signatures: pretty_print(ast, indent_str), minify_print(ast, obfuscate, obfuscate_globals, shadow_funcname, drop_semi))
        for a in ((True,), (True, True), (True, True, True), (False, False, False, True), (True, False, False, True)):
            if es5.minify_print(t, *a) != minify_print(parse(t), *a):
                bad.append('es5.minify_print(text, *%r) differs from minify_print(parse(text), *%r)' % (a, a))
        for a in (('\t',), ('',), ('    ',)):
            if es5.pretty_print(t, *a) != pretty_print(parse(t), *a):
                bad.append('es5.pretty_print(text, %r) differs from pretty_print(parse(text), %r)' % (a[0], a[0]))
            if es5.pretty_print(t, indent_str=a[0]) != pretty_print(parse(t), indent_str=a[0]):
                bad.append('es5.pretty_print(text, indent_str=%r) differs' % a[0])
        for n in _walk(tree):
            if str(n) != pretty_print(n):
                bad.append('str(%s) != pretty_print' % type(n).__name__)
                break
    return bad


def replay(d):
    w = d['input']
    _TL['texts'] = PROGRAMS + [big_scope_program()]
    if w.get('shortcuts'):
        bad = shortcuts()
        return bool(bad), '; '.join(bad[:3]) or 'ok'
    msg = concrete_history(w['cfg'], w['xi'], w['ai'], w['mode'], w['ks'])
    return bool(msg), 'history %r: %s' % (w, msg or 'ok')


def main():
    run = common.Run('C14', 'other')
    th = run.thorough()
    src = boot.scratch_dir()
    sx.install(src)
    boot.warm_tabs()
    _TL['texts'] = PROGRAMS + [big_scope_program()]
    nt = len(_TL['texts'])
    jobs = []
    for cfg in CONFIGS:
        for xi in range(nt - 1):               # the abandoned/raising call runs on the small trees
            for ai in (range(nt) if th else (0, nt - 1)):
                for mode in ('abandon', 'raise'):
                    jobs.append((cfg, xi, ai, mode, 1))
        if th:
            for xi in range(nt - 1):
                jobs.append((cfg, xi, 0, 'abandon', 2))
        # interleaved generators: on the small trees (every suspension point), both flavours of other printer
        for ai in (range(nt - 1) if th else (0, 1)):
            jobs.append((cfg, (ai + 1) % (nt - 1), ai, 'interleave', 1))
    res = common.pmap(_job, jobs)
    from .. import replay as rp
    tot = dict(paths=0, reached=0, z3_checks=0, assertions=0, solver_s=0.0)
    samples = []
    seen = set()
    for args, st, viols, errs in res:
        for k in tot:
            tot[k] += st[k]
        if st['unsupported'] or st['errors'] or st['bound_hits']:
            run.inconclusive_('history %r: %r' % (args, errs))
        if st['reached'] == 0:
            run.inconclusive_('history %r vacuous' % (args,))
        if len(samples) < 4:
            samples.append({'history': list(args), 'abandon_points_explored': st['paths'], 'stats': st})
        for msg, w in viols[:1]:
            key = 'C14: ' + msg
            if key in seen:
                continue
            seen.add(key)
            ks = [int(w.get('k%d' % i, 0)) if str(w.get('k%d' % i, '0')).isdigit() else 0 for i in range(args[4])]
            rpd = {'property': 'C14', 'input': {'cfg': args[0], 'xi': args[1], 'ai': args[2], 'mode': args[3], 'ks': ks}}
            ok, detail = rp.run_in_subprocess(rpd)
            if ok:
                run.violation(key, detail[:500], rpd)
            else:
                run.inconclusive_('history violation did not reproduce: %s %r' % (msg, rpd['input']))
    rpd = {'property': 'C14', 'input': {'shortcuts': True}}
    ok, detail = rp.run_in_subprocess(rpd)
    if ok:
        run.violation('C14: shortcut entry points disagree with the explicit calls', detail[:400], rpd)
    run.coverage.update({
        'explanation': 'SX over symbolic call histories: the abandon point of the first call(s) is a z3 Int compared with the fragment counter, so the paths are exactly '
                       'the feasible abandon points (every fragment index) plus exhaustion; for each, reuse of the same printer object is compared with a fresh printer '
                       'and every tree with its deep snapshot. %d histories (printer configuration x abandoned tree x printed tree x abandon/raise).' % len(jobs),
        'evaluations': tot['paths'], 'distinct_nontrivial': tot['reached'],
        'rule': 'one evaluation = one feasible abandon index (or raise) of one history shape', 'samples': samples,
        'queries': tot['z3_checks'], 'solver_s': round(tot['solver_s'], 1), 'assertions_discharged': tot['assertions'],
        'bounds': {'histories': 'length 2 (quick) / 3 (thorough), 5 printer configurations, %d trees incl. a 300-name scope' % nt,
                   'outside': 'longer histories; more than one suspension per run; other trees'},
    })
    run.assumptions += ['fragment tuples compare by value; a fresh printer of the same configuration is the reference']
    return run.finish()
