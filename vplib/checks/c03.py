"""C03 - the parser accepts exactly ES5 and builds the tree the derivation dictates.

Deciding step (shape A, monolithic SAT): for every length n <= N one query over ALL token strings w in Sigma^n:
  acc-A  LR-SAT(real ply tables + ProductionError side condition)(w) and not CFG-SAT(ES5 reference)(w)
  acc-B  CFG-SAT(ES5 reference)(w) and not LR-SAT(...)(w)
  tree   both accept and some labelled node span (node kind + terminal skeleton, span) differs
The tables, productions and node kinds are regenerated from /repo's working tree on every run (ply on the
p_* docstrings; node kinds by executing every p_* action).  Witnesses are replayed through the real ply engine
with the real tables and actions on the token string, and (when it has no virtual semicolon) through parse() on text.
"""
import os, sys, time, json
from .. import boot, common, gx, actions

REF = os.path.join(common.VERIF, 'ref', 'es5_syntactic.gram')
# labels not compared: leaf wrappers / factoring differences between the two grammars (documented in DESIGN.md C03)
SKIP_LABELS = ('Identifier', 'PropIdentifier', 'VarDecl')


def build():
    boot.load_plain()
    from calmjs.parse.parsers import es5
    import logging
    p = boot.fresh_parser()
    Tb, G = gx.extract(p)
    summ, sp, rec = actions.summarize(p)
    lab = calm_label_fn(Tb, G, summ)
    G.labels = {i: lab(i) for i in range(len(G.prods)) if lab(i)}
    ref = gx.load_gram(REF, Tb.terms)
    return p, Tb, G, summ, sp, ref


def calm_label_fn(Tb, G, summ):
    def label_of(pidx):
        num = Tb.pnum_of[pidx]
        k = summ[num]['kind']
        if not k:
            return None
        rhs = G.prods[pidx][1]
        return k + ':' + '+'.join(x for x in rhs if x in G.tset)
    return label_of


def spell(word, sp):
    return ' '.join(sp[t] for t in word)


def raising_prods(parser_obj, Tb, summ):
    """productions whose action raises ProductionError for some child kind: found by executing each node-less
    statement action on children of every node kind reachable for that slot (here: expr_statement on FuncExpr)"""
    from calmjs.parse.exceptions import ProductionError
    from calmjs.parse import asttypes
    out = []
    rec, sp = actions.recipes(parser_obj)
    fe = actions.build(rec['function_expr'])
    for num, (name, rhs, func, pr) in enumerate(Tb.prods):
        if num == 0 or not rhs:
            continue
        for k, X in enumerate(rhs):
            if X in sp:
                continue
            vals = [sp[Y] if Y in sp else actions.build(rec[Y]) for Y in rhs]
            vals[k] = actions.build(rec['function_expr'])
            try:
                actions.run_action(pr, vals)
            except ProductionError:
                out.append((num, k))
            except Exception:
                pass
    return out


class Query:
    """one length n: shared letters, both encodings"""
    def __init__(self, n, Tb, G, summ, ref, restrict_first=None):
        self.n = n
        self.cnf = gx.CNF()
        self.L = gx.Letters(self.cnf, Tb.terms, n)
        if restrict_first is not None and n > 0:
            self.cnf.add(*[self.L.lit(0, t) for t in restrict_first])
        lab = calm_label_fn(Tb, G, summ)
        self.lr_top, self.lr_nodes, self.lr_used = gx.lr_encode(self.cnf, self.L, Tb, G, want_nodes=True, label_of=lab)
        self.ref_top, self.ref_nodes = gx.cfg_encode(self.cnf, self.L, ref, want_nodes=True)
        self.Tb, self.G = Tb, G

    def side_condition(self, raising):
        """literal: some production instance raises ProductionError (child slot is a FuncExpr covering its whole span)"""
        cnf = self.cnf
        alts = []
        fe_spans = {}
        for (lab, i, l), v in self.lr_nodes.items():
            if lab.startswith('FuncExpr:'):
                fe_spans.setdefault((i, l), []).append(v)
        inv = {v: k for k, v in self.Tb.pnum_of.items()}
        for num, k in raising:
            pidx = inv[num]
            rhs = self.G.prods[pidx][1]
            before = sum(self.G.minlen[x] for x in rhs[:k])
            after = len(rhs) - k - 1
            # only shapes "child then fixed-width terminals" are supported (expr_statement : expr_nobf SEMI)
            if before != 0 or any(x not in self.G.tset for x in rhs[k + 1:]):
                raise common.HarnessError('unsupported raising production shape %r' % (rhs,))
            for (pi, i, l), u in self.lr_used.items():
                if pi != pidx:
                    continue
                for fv in fe_spans.get((i, l - after), []):
                    alts.append(cnf.AND(u, fv))
        return cnf.OR(alts)


def solve_acceptance(args):
    n, direction, first = args
    Q = _TL['mk'](n, first)
    cnf = Q.cnf
    raising = _TL['raising']
    t0 = time.time()
    if Q.lr_top is None and Q.ref_top is None:
        return dict(n=n, dir=direction, first=first, verdict='unsat', trivial=True, vars=cnf.n, clauses=len(cnf.cl), solve_s=0, word=None)
    lr_acc = Q.lr_top
    if lr_acc is not None:
        sc = Q.side_condition(raising)
        if sc is not None:
            lr_acc = cnf.AND(lr_acc, -sc)
    excl = _TL['known_exclusions'](Q)
    if direction == 'A':          # calmjs accepts, ES5 rejects
        if lr_acc is None:
            return dict(n=n, dir=direction, first=first, verdict='unsat', trivial=True, vars=cnf.n, clauses=len(cnf.cl), solve_s=0, word=None)
        cnf.add(lr_acc)
        if Q.ref_top is not None:
            cnf.add(-Q.ref_top)
        for e in excl.get('A', []):
            cnf.add(-e)
    else:                         # ES5 accepts, calmjs rejects
        if Q.ref_top is None:
            return dict(n=n, dir=direction, first=first, verdict='unsat', trivial=True, vars=cnf.n, clauses=len(cnf.cl), solve_s=0, word=None)
        cnf.add(Q.ref_top)
        if lr_acc is not None:
            cnf.add(-lr_acc)
        for e in excl.get('B', []):
            cnf.add(-e)
    verdict, lits, dt = cnf.solve(timeout=_TL['timeout'])
    word = Q.L.word(lits) if verdict == 'sat' else None
    return dict(n=n, dir=direction, first=first, verdict=verdict, vars=cnf.n, clauses=len(cnf.cl), solve_s=round(dt, 2),
                encode_s=round(time.time() - t0 - dt, 2), word=word, msg=(lits if verdict == 'unknown' else None))


def solve_tree(args):
    n, first = args
    Q = _TL['mk'](n, first)
    cnf = Q.cnf
    if Q.lr_top is None or Q.ref_top is None:
        return dict(n=n, dir='T', first=first, verdict='unsat', trivial=True, vars=cnf.n, clauses=len(cnf.cl), solve_s=0, word=None)
    cnf.add(Q.lr_top)
    cnf.add(Q.ref_top)
    diffs = []
    keys = set(Q.lr_nodes) | set(Q.ref_nodes)
    ncmp = 0
    for key in keys:
        lab, i, l = key
        if l < 2 or lab.split(':')[0] in SKIP_LABELS:
            continue
        ncmp += 1
        x, y = Q.lr_nodes.get(key), Q.ref_nodes.get(key)
        d = cnf.var()
        if x is None:
            cnf.add(-d, y)
        elif y is None:
            cnf.add(-d, x)
        else:
            cnf.add(-d, x, y)
            cnf.add(-d, -x, -y)
        diffs.append(d)
    if not diffs:
        return dict(n=n, dir='T', first=first, verdict='unsat', trivial=True, vars=cnf.n, clauses=len(cnf.cl), solve_s=0, word=None)
    cnf.add(*diffs)
    verdict, lits, dt = cnf.solve(timeout=_TL['timeout'])
    word = None
    detail = None
    if verdict == 'sat':
        word = Q.L.word(lits)
        a = sorted(k for k, v in Q.lr_nodes.items() if v in lits and k[2] >= 2 and k[0].split(':')[0] not in SKIP_LABELS)
        b = sorted(k for k, v in Q.ref_nodes.items() if v in lits and k[2] >= 2 and k[0].split(':')[0] not in SKIP_LABELS)
        detail = {'calmjs_only': [list(k) for k in a if k not in b], 'es5_only': [list(k) for k in b if k not in a]}
    return dict(n=n, dir='T', first=first, verdict=verdict, vars=cnf.n, clauses=len(cnf.cl), solve_s=round(dt, 2), word=word,
                detail=detail, compared=ncmp, msg=(lits if verdict == 'unknown' else None))


_TL = {}


# ------------------------------------------------------------------------------------------ leg 1b: per non-terminal
SPECIAL_NT = {'source_elements': 'SourceElements_opt', 'source_element_list': 'SourceElements', 'initializer': 'Initialiser',
              'initializer_noin': 'InitialiserNoIn', 'expr_opt': 'Expression_opt', 'expr_noin_opt': 'ExpressionNoIn_opt',
              'expr': 'Expression', 'expr_noin': 'ExpressionNoIn', 'expr_nobf': ('Expression', True),
              'left_hand_side_expr': 'LeftHandSideExpression', 'left_hand_side_expr_nobf': ('LeftHandSideExpression', True),
              'function_expr': 'FunctionExpression', 'catch': 'Catch', 'finally': 'Finally', 'function_body': 'FunctionBody',
              'program': 'Program', 'expr_statement': 'ExpressionStatement'}
WORDS = {'expr': 'Expression', 'and': 'AND', 'or': 'OR', 'xor': 'XOR', 'noin': 'NoIn'}


def nt_pairs(G, ref):
    """(calmjs non-terminal, reference non-terminal, nofirst?) pairs, derived from the names"""
    out = []
    for a in sorted(G.nts):
        nobf = False
        if a in SPECIAL_NT:
            b = SPECIAL_NT[a]
            if isinstance(b, tuple):
                b, nobf = b
        else:
            parts = a.split('_')
            if parts[-1] == 'nobf':
                nobf = True
                parts = parts[:-1]
            b = ''.join(WORDS.get(x, x.capitalize()) for x in parts)
        if b in ref.nts:
            out.append((a, b, nobf))
    return out


def contexts(G):
    """shortest (prefix, suffix) terminal context of every non-terminal: program =>* prefix A suffix"""
    short = {}
    for t in G.terms:
        short[t] = (t,)
    ch = True
    while ch:
        ch = False
        for l, r in G.prods:
            if all(x in short for x in r):
                w = tuple(y for x in r for y in short[x])
                if l not in short or len(w) < len(short[l]):
                    short[l] = w
                    ch = True
    ctx = {G.start: ((), ())}
    ch = True
    while ch:
        ch = False
        for l, r in G.prods:
            if l not in ctx:
                continue
            for k, X in enumerate(r):
                if X in G.tset:
                    continue
                u = ctx[l][0] + tuple(y for x in r[:k] for y in short[x])
                v = tuple(y for x in r[k + 1:] for y in short[x]) + ctx[l][1]
                if X not in ctx or len(u) + len(v) < len(ctx[X][0]) + len(ctx[X][1]):
                    ctx[X] = (u, v)
                    ch = True
    return ctx


def solve_nt(args):
    a, b, nobf, n, direction = args
    G, ref, Tb = _TL['G'], _TL['ref'], _TL['Tb']
    cnf = gx.CNF()
    L = gx.Letters(cnf, Tb.terms, n)
    ca, na = gx.cfg_encode(cnf, L, G, start=a, want_nodes=True)
    cb, _ = gx.cfg_encode(cnf, L, ref, start=b)
    if nobf and n > 0 and cb is not None:
        cb = cnf.AND(cnf.AND(cb, -L.lit(0, 'LBRACE')), -L.lit(0, 'FUNCTION'))
    res = dict(nt=a, ref=b, n=n, dir=direction, vars=0, clauses=0, solve_s=0, verdict='unsat', word=None)
    if ca is None and cb is None:
        res['trivial'] = True
        return res
    # exclusion of the known finding F1 at grammar level: an expr_statement instance starting with FUNCTION
    # and, at grammar level, the ProductionError side condition (bare function expression statement) which is part
    # of that same class.  For *_nobf non-terminals the class shows as a phrase starting with FUNCTION.
    for (lab, i, l), v in na.items():
        if lab.startswith('ExprStatement') and l >= 1:
            cnf.add(-v, -L.lit(i, 'FUNCTION'))
    if nobf and n > 0:
        cnf.add(-L.lit(0, 'FUNCTION'))
    if direction == 'A':
        if ca is None:
            res['trivial'] = True
            return res
        cnf.add(ca)
        if cb is not None:
            cnf.add(-cb)
    else:
        if cb is None:
            res['trivial'] = True
            return res
        cnf.add(cb)
        if ca is not None:
            cnf.add(-ca)
    verdict, lits, dt = cnf.solve(timeout=_TL['timeout'])
    res.update(verdict=verdict, vars=cnf.n, clauses=len(cnf.cl), solve_s=round(dt, 2), word=L.word(lits) if verdict == 'sat' else None)
    return res


def ref_accepts(word, Tb, ref):
    cnf = gx.CNF()
    L = gx.Letters(cnf, Tb.terms, len(word))
    for i, t in enumerate(word):
        cnf.add(L.lit(i, t))
    top, _ = gx.cfg_encode(cnf, L, ref)
    if top is None:
        return False
    cnf.add(top)
    return cnf.solve()[0] == 'sat'


# ------------------------------------------------------------------------------------------ replay on the real engine
_ENGINE = {}


class TokenSource:
    """feeds a fixed token-kind string to the real ply engine (real tables, real actions)"""
    with_comments = False

    def __init__(self, word, sp):
        import ply.lex as lex
        self.toks = []
        pos = 0
        for t in word:
            tok = lex.LexToken()
            tok.type, tok.value, tok.lineno, tok.lexpos = t, sp[t], 1, pos
            tok.colno = pos + 1
            pos += len(sp[t]) + 1
            self.toks.append(tok)
        self.i = 0
        self.lineno, self.lexpos = 1, pos
        self.cur_token = None
        self.valid_prev_token = None

    def token(self):
        if self.i >= len(self.toks):
            return None
        t = self.toks[self.i]
        self.i += 1
        if self.cur_token is not None:
            self.valid_prev_token = self.cur_token
        self.cur_token = t
        return t

    def input(self, text):
        pass

    asi_close = False       # when set: 7.9's layout-independent cases (before `}` and at end of input) are emulated

    def auto_semi(self, token):
        if self.asi_close and (token is None or (token.type == 'RBRACE' and token is not getattr(self, '_asi_for', None))):
            import ply.lex as lex
            t = lex.LexToken()
            t.type, t.value, t.lineno, t.lexpos = 'AUTOSEMI', ';', 1, (token.lexpos if token else self.lexpos)
            t.colno = 0
            if token is not None:
                self._asi_for = token
                self.toks.insert(self.i, token)
            else:
                if getattr(self, '_asi_eof', False):
                    return None
                self._asi_eof = True
            return t
        return None

    def backtracked_token(self, pos=1):
        return self.cur_token

    def lookup_colno(self, lineno, lexpos):
        return lexpos + 1


def engine_accepts(word, sp, asi_close=False):
    """run the real LRParser + real actions on the token string; returns (accepted, repr or error)"""
    from calmjs.parse.parsers import es5
    from calmjs.parse.exceptions import ECMASyntaxError, ProductionError
    from calmjs.parse.walkers import ReprWalker
    p = _ENGINE.get('p') or _ENGINE.setdefault('p', boot.fresh_parser())
    src = TokenSource(word, sp)
    src.asi_close = asi_close
    p.lexer = src
    try:
        tree = p.parser.parse('', lexer=src, tracking=True)
    except ProductionError as e:
        return False, 'ProductionError: %s' % (e.args[0],)
    except ECMASyntaxError as e:
        return False, 'ECMASyntaxError: %s' % e
    except AttributeError as e:
        return False, 'syntax error (token source stub): %s' % e
    return True, ReprWalker().walk(tree)


def spans_of(word, sp, Tb, summ):
    """labelled spans of the real engine's run (via the plain LR driver over the same tables)"""
    reds = gx.lr_run(Tb, word)
    if reds is None:
        return None
    out = set()
    for pnum, st, l in reds:
        k = summ[pnum]['kind']
        if k and l >= 2 and k not in SKIP_LABELS:
            rhs = Tb.prods[pnum][1]
            out.add((k + ':' + '+'.join(x for x in rhs if x.isupper()), st, l))
    return out


def replay(d):
    if d['input'].get('claim') in ('lexical', 'lexical_set', 'contextual', 'history', 'n783'):
        from . import c03lex
        boot.load_plain()
        if d['input']['claim'] == 'n783':
            return c03lex.replay_783(d)
        if d['input']['claim'] == 'history':
            return c03lex.replay_h(d)
        if d['input']['claim'] == 'contextual':
            return c03lex.replay_g(d)
        return c03lex.replay(d) if d['input']['claim'] == 'lexical' else c03lex.replay_set(d)
    p, Tb, G, summ, sp, ref = build()
    _ENGINE['p'] = p
    w = d['input']
    word = w['tokens']
    acc, info = engine_accepts(word, sp)
    if w['claim'] == 'nonterminal':
        full = w['tokens']
        es5 = ref_accepts(full, Tb, ref)
        bad = acc != es5
        return bad, 'non-terminal %s: phrase %r embedded as %r (text %r): real engine %s, ES5 %s' % (
            w['nt'], ' '.join(w['phrase']), ' '.join(full), spell(full, sp), 'accepts' if acc else 'rejects: ' + info[:200], 'accepts' if es5 else 'rejects')
    if w['claim'] == 'calmjs_accepts_es5_rejects':
        return acc, 'token string %r (e.g. text %r): real engine %s: %s' % (' '.join(word), spell(word, sp), 'accepts' if acc else 'rejects', info[:300])
    if w['claim'] == 'es5_accepts_calmjs_rejects':
        return (not acc), 'token string %r (e.g. text %r): real engine %s: %s' % (' '.join(word), spell(word, sp), 'accepts' if acc else 'rejects', info[:300])
    if w['claim'] == 'tree_differs':
        real = spans_of(word, sp, Tb, summ)
        es5 = {tuple(x) for x in w['es5_spans']}
        if real is None:
            return False, 'engine rejects %r' % (word,)
        bad = real != es5
        return bad, 'token string %r (text %r): spans only calmjs %r / only ES5 %r' % (' '.join(word), spell(word, sp), sorted(real - es5), sorted(es5 - real))
    raise common.HarnessError('unknown claim')


# ------------------------------------------------------------------------------------------ known-finding exclusions
def known_exclusions_factory(Tb, G):
    inv = {v: k for k, v in Tb.pnum_of.items()}

    def f(Q):
        """literals describing the sentence classes of known findings (excluded from the main queries)"""
        cnf = Q.cnf
        out = {'A': [], 'B': []}
        # F1: an expression statement that begins with FUNCTION (anonymous function expression in statement position)
        alts = []
        for (pidx, i, l), u in Q.lr_used.items():
            if G.prods[pidx][0] == 'expr_statement' and l >= 1:
                alts.append(cnf.AND(u, Q.L.lit(i, 'FUNCTION')))
        v = cnf.OR(alts)
        if v is not None:
            out['A'].append(('C03:expr-statement-starting-with-function', v))
        return out
    return f


def main():
    run = common.Run('C03', 'model_checking')
    p, Tb, G, summ, sp, ref = build()
    _ENGINE['p'] = p
    raising = raising_prods(p, Tb, summ)
    th = run.thorough()
    NA = 9 if th else 7          # acceptance bound
    NT = 8 if th else 6          # tree bound
    kf = known_exclusions_factory(Tb, G)
    known_keys = {f['key'] for f in run.known}

    def excl(Q):
        e = kf(Q)
        return {d: [v for key, v in lst if key in known_keys] for d, lst in e.items()}
    _TL.update(mk=lambda n, first: Query(n, Tb, G, summ, ref, restrict_first=first), raising=raising,
               known_exclusions=excl, timeout=3000)
    # split the big lengths over the first token
    firsts = sorted({t for t in Tb.terms})
    jobs = []
    for n in range(0, NA + 1):
        for d in ('A', 'B'):
            if n >= 8:
                for chunk in [firsts[i::12] for i in range(12)]:
                    jobs.append(('acc', (n, d, tuple(chunk))))
            else:
                jobs.append(('acc', (n, d, None)))
    for n in range(2, NT + 1):
        if n >= 7:
            for chunk in [firsts[i::12] for i in range(12)]:
                jobs.append(('tree', (n, tuple(chunk))))
        else:
            jobs.append(('tree', (n, None)))
    jobs.sort(key=lambda j: -j[1][0])
    # leg 1b: yield languages of corresponding non-terminals (grammar as written), witnesses embedded and replayed
    pairs = nt_pairs(G, ref)
    ctx = contexts(G)
    NN = 8 if th else 7
    _TL.update(G=G, ref=ref, Tb=Tb, known_keys=known_keys)
    ntjobs = [(a, b, nobf, n, d) for (a, b, nobf) in pairs for n in range(0, NN + 1) for d in 'AB']
    t_q = time.time()
    res = common.pmap(_job, jobs + [('nt', j) for j in ntjobs])
    run.leg('timing', queries_wall_s=round(time.time() - t_q, 1))
    ntres = [r for k, r in res if k == 'nt']
    res = [(k, r) for k, r in res if k != 'nt']
    # known findings: is each still there?  (restricted query at the smallest length that shows it)
    kf_hits = {}
    for f in run.known:
        r = _kf_probe(f['key'], Tb, G, summ, ref, raising, kf)
        if r:
            run.known_hit[f['key']] = f['what']
            kf_hits[f['key']] = r
    from .. import replay as rp
    tot_q = 0
    tot_solve = 0.0
    states = 0
    trans = 0
    samples = []
    validated = 0
    for kind, r in res:
        tot_q += 1
        tot_solve += r['solve_s']
        states += r['vars']
        trans += r['clauses']
        if r['verdict'] == 'unknown':
            run.inconclusive_('%s n=%d dir=%s: solver %r' % (kind, r['n'], r['dir'], r.get('msg')))
            continue
        if len(samples) < 8 and not r.get('trivial') and r['n'] >= 4:
            samples.append({k: r[k] for k in ('n', 'dir', 'verdict', 'vars', 'clauses', 'solve_s')})
        if r['verdict'] != 'sat':
            continue
        word = r['word']
        if kind == 'acc':
            claim = 'calmjs_accepts_es5_rejects' if r['dir'] == 'A' else 'es5_accepts_calmjs_rejects'
            rpd = {'property': 'C03', 'input': {'tokens': word, 'claim': claim, 'text': spell(word, sp)}}
            key = '%s: %s' % (claim, ' '.join(word))
        else:
            es5 = sorted(k for k in (tuple(x) for x in r['detail']['es5_only']))
            allref = None
            rpd = {'property': 'C03', 'input': {'tokens': word, 'claim': 'tree_differs', 'text': spell(word, sp),
                                                'es5_spans': _ref_spans(word, Tb, ref), 'detail': r['detail']}}
            key = 'tree_differs: %s' % ' '.join(word)
        ok, detail = rp.run_in_subprocess(rpd)
        validated += 1
        if ok:
            run.violation(key, detail[:500], rpd)
        else:
            run.inconclusive_('SAT witness did not reproduce on the real engine (encoding error?): %s | %s' % (key, detail[:300]))
    nt_stats = dict(pairs=len(pairs), queries=len(ntres), sat=0, confirmed=0, grammar_level_only=[])
    for r in ntres:
        tot_q += 1
        tot_solve += r['solve_s']
        states += r['vars']
        trans += r['clauses']
        if r['verdict'] == 'unknown':
            run.inconclusive_('nt %s n=%d: solver unknown' % (r['nt'], r['n']))
        if r['verdict'] != 'sat':
            continue
        nt_stats['sat'] += 1
        if r['nt'] not in ctx:
            continue
        u, v = ctx[r['nt']]
        full = list(u) + r['word'] + list(v)
        rpd = {'property': 'C03', 'input': {'tokens': full, 'claim': 'nonterminal', 'nt': r['nt'], 'phrase': r['word'], 'text': spell(full, sp)}}
        ok, detail = rp.run_in_subprocess(rpd)
        validated += 1
        if ok:
            nt_stats['confirmed'] += 1
            run.violation('nonterminal %s %s: %s' % (r['nt'], 'accepts more' if r['dir'] == 'A' else 'accepts less', ' '.join(r['word'])), detail[:500], rpd)
        else:
            nt_stats['grammar_level_only'].append('%s: %s' % (r['nt'], ' '.join(r['word'])))
    # leg L: token languages vs the ES5 lexical grammar (z3 regular-language queries)
    from . import c03lex
    lex_st = c03lex.run_leg(run)
    tot_q += lex_st['queries']
    tot_solve += lex_st['solver_s']
    # leg G: the contextual tokens get / set (replay level: every ID position of the accepted strings and the production corpus)
    gwords = [w for w in gx.enumerate_accepted(Tb, G, 4) if 'AUTOSEMI' not in w and 'ID' in w]
    short = {t: (t,) for t in G.terms}
    ch = True
    while ch:
        ch = False
        for l, r in G.prods:
            if all(x in short for x in r):
                wv = tuple(y for x in r for y in short[x])
                if l not in short or len(wv) < len(short[l]):
                    short[l] = wv
                    ch = True
    for l, r in G.prods:
        if l in ctx and ('GETPROP' in r or 'SETPROP' in r):
            u, v = ctx[l]
            w = tuple(u) + tuple(y for x in r for y in short[x]) + tuple(v)
            w = tuple('SEMI' if t == 'AUTOSEMI' else t for t in w)
            if gx.lr_run(Tb, list(w)) is not None:
                gwords.append(w)
    c03lex.run_leg_g(run, Tb, G, sp, ref, gwords, ref_accepts)
    # leg H: parse(text) gives the same verdict and tree whatever was parsed before in the same process (replay level)
    c03lex.run_leg_h(run)
    c03lex.run_leg_783(run)
    run.leg('per_nonterminal', **{k: (v if not isinstance(v, list) else v[:10]) for k, v in nt_stats.items()})
    # validation of LR-SAT against the real engine on the enumerated accepted strings (prediction == engine)
    val = _validate(Tb, G, summ, sp, ref, 3 if not th else 4)
    validated += val['checked']
    if val['mismatch']:
        run.inconclusive_('LR driver / engine mismatch: %r' % (val['mismatch'][:3],))
    run.coverage.update({
        'states': states, 'transitions': trans, 'traces_validated_against_impl': validated,
        'samples': samples + [{'known_finding_probe': kf_hits}],
        'explanation': 'states = SAT variables, transitions = clauses, summed over %d queries; each query ranges over all token '
                       'strings of one length over the %d terminals of the real tables (%d productions, %d LALR states).' % (
                           tot_q, len(Tb.terms), len(G.prods), len(Tb.action)),
        'queries': tot_q, 'solver_s': round(tot_solve, 1),
        'bounds': {'acceptance': 'all token strings of length <= %d (both directions)' % NA, 'per_nonterminal': '%d corresponding non-terminal pairs, phrases of length <= %d' % (len(pairs), NN), 'tree': 'all token strings of length <= %d accepted by both' % NT,
                   'lexical': 'token languages of ID, NUMBER, STRING, REGEX and both comment kinds vs ES5 clause 7: regular-language equivalence, strings of any length; Annex B forms not judged',
                   'outside': 'longer sentences; lexer feedback (C04/C05) and the priority/longest-match interplay of the master pattern (C06); contextual get/set; early errors'},
        'functions_encoded': ['ply LALR tables generated from the p_* docstrings of calmjs/parse/parsers/es5.py@%s' % boot.source_hash('calmjs/parse/parsers/es5.py'),
                              'all %d p_* actions (node kinds by execution)' % len(summ), 'ref/es5_syntactic.gram (%d productions)' % len(ref.prods),
                              'Lexer.identifier, t_NUMBER, string, t_regex_REGEX, t_LINE_COMMENT, t_BLOCK_COMMENT, keywords_dict, t_ignore, punctuator rules of calmjs/parse/lexers/es5.py@%s' % boot.source_hash('calmjs/parse/lexers/es5.py'), 'ref/es5_lexical.py'],
        'productionerror_side_condition': [(Tb.prods[n][0], k) for n, k in raising],
        'labels_not_compared': list(SKIP_LABELS),
        'engine_validation': {k: v for k, v in val.items() if k != 'mismatch'},
    })
    run.assumptions += ['ply LRParser drives action/goto as LR theory says (validated per run: enumerated accepted strings and every witness through the real engine)',
                        'z3 -dimacs verdicts (sat models always replayed)',
                        'ref/es5_syntactic.gram is the reading of ECMA-262 5.1 Annex A.3-A.5 (FunctionDeclaration admitted as Statement; virtual semicolons only where a statement-terminating ; stands)']
    return run.finish()


def _job(j):
    kind, args = j
    if kind == 'nt':
        return kind, solve_nt(args)
    return kind, (solve_acceptance(args) if kind == 'acc' else solve_tree(args))


def _ref_spans(word, Tb, ref):
    """labelled spans of the reference derivation of a concrete word (CFG-SAT with fixed letters)"""
    cnf = gx.CNF()
    L = gx.Letters(cnf, Tb.terms, len(word))
    for i, t in enumerate(word):
        cnf.add(L.lit(i, t))
    top, nodes = gx.cfg_encode(cnf, L, ref, want_nodes=True)
    if top is None:
        return []
    cnf.add(top)
    v, lits, dt = cnf.solve()
    if v != 'sat':
        return []
    return sorted([list(k) for k, x in nodes.items() if x in lits and k[2] >= 2 and k[0].split(':')[0] not in SKIP_LABELS])


def _kf_probe(key, Tb, G, summ, ref, raising, kf):
    for n in range(3, 9):
        Q = Query(n, Tb, G, summ, ref)
        if Q.lr_top is None:
            continue
        cnf = Q.cnf
        e = kf(Q)
        lits = [v for d in e for k, v in e[d] if k == key]
        if not lits:
            continue
        lr_acc = Q.lr_top
        sc = Q.side_condition(raising)
        if sc is not None:
            lr_acc = cnf.AND(lr_acc, -sc)
        cnf.add(lr_acc)
        if Q.ref_top is not None:
            cnf.add(-Q.ref_top)
        cnf.add(*lits)
        v, m, dt = cnf.solve(timeout=600)
        if v == 'sat':
            return {'n': n, 'tokens': ' '.join(Q.L.word(m))}
    return None


def _validate(Tb, G, summ, sp, ref, n):
    """the tables' language as enumerated by a plain LR driver == what the real ply engine does (sampled exhaustively up to n)"""
    words = gx.enumerate_accepted(Tb, G, n)
    mism = []
    checked = 0
    step = max(1, len(words) // 400)
    for w in words[::step]:
        acc, info = engine_accepts(list(w), sp)
        checked += 1
        if not acc and 'ProductionError' not in info:
            mism.append((w, info[:100]))
    return {'accepted_strings_up_to_n': len(words), 'n': n, 'checked': checked, 'mismatch': mism}
