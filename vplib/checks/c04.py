"""C04 - automatic semicolon insertion follows ECMA-262 7.9.

Leg S (SX on the real Lexer wrapper over a raw-token source with symbolic kinds):
  - auto_semi(tok) supplies a semicolon iff tok is not a semicolon and (tok is `}` or a line terminator - also one inside a
    multi-line comment - separates it from the previous real token); AUTOSEMI is emitted by the lexer exactly at the first
    line terminator after return/break/continue/throw;  z3 decides both over all kind sequences of <= n raw items.
Leg T (replay against the real tables; the metamorphic statement itself): for every structure of a table-derived space
  and every statement-terminating `;` in it, the text with that `;` omitted under each separating layout is parsed by
  parse() and compared with what 7.9 prescribes, computed from the real LALR tables: same tree as the token string with
  AUTOSEMI at that place when the next token is `}`, end of input, or offending (prefix.next not viable in the tables,
  or next is ++/--) and a line terminator separates; a syntax error otherwise (no terminator, for-header, would-be empty
  statement).  Restricted productions: a terminator after return/break/continue/throw ends the statement.
"""
import re, sys, time, itertools
import z3
from .. import boot, common, sx, rawsx, gx, actions
from . import lexsx, c03 as c03mod, c05 as c05mod
sys.path.insert(0, common.VERIF)
from ref import refscan

LT_LAYOUTS = ['\n', '\r', '\r\n', '\u2028', '\u2029', ' \n ', '//c\n', '/*c*/\n', '\n/*c*/', '/*\n*/', '/*c*/\n/*d*/']
NOLT_LAYOUTS = [' ', '/*c*/']
K_COMMENT_AFTER_LT = 'C04: a comment between the line terminator and the offending token hides the terminator'
K_ML_COMMENT = 'C04: a multi-line comment is not treated as a line terminator'
K_REGEX_AFTER_ASI = 'C04: no semicolon is inserted before a regex literal whose `/` the lexer has already read as a division'
K_POSTFIX = 'C04: restricted postfix ++/--: a line terminator before ++/-- does not end the statement'
K_RESTRICTED_COMMENT = 'C04: a comment between return/break/continue/throw and the line terminator suppresses the virtual semicolon'


def feed_viable(Tb, prefix):
    """is the token string a viable prefix of the real tables?"""
    stack = [0]
    for tok in prefix:
        while True:
            a = Tb.action[stack[-1]].get(tok)
            if a is None:
                return False
            if a > 0:
                stack.append(a)
                break
            if a == 0:
                return False
            name, rhs = Tb.prods[-a][0], Tb.prods[-a][1]
            if len(rhs):
                del stack[-len(rhs):]
            stack.append(Tb.goto[stack[-1]][name])
    return True


def in_for_header(w, i):
    depth = 0
    for j in range(i - 1, -1, -1):
        if w[j] == 'RPAREN':
            depth += 1
        elif w[j] == 'LPAREN':
            if depth == 0:
                return j > 0 and w[j - 1] == 'FOR'
            depth -= 1
        elif w[j] in ('LBRACE', 'RBRACE') and depth == 0:
            return False
    return False


def has_lt(lay):
    return any(c in lay for c in '\n\r\u2028\u2029')


def cases(Tb, w):
    """(text-builder args, expected token string or None for 'syntax error', class)"""
    out = []
    n = len(w)
    for i, t in enumerate(w):
        if t == 'SEMI':
            nxt = w[i + 1] if i + 1 < n else None
            header = in_for_header(w, i)
            w2 = w[:i] + ('AUTOSEMI',) + w[i + 1:]
            allowed_by_tables = c05mod.engine_tree(w2, _TL['sp'], True) is not None
            # a slash-initial next token is scanned with the division goal whenever a division is permitted there (7: InputElementDiv),
            # so it is offending only if neither reading continues the statement
            probe = ['DIV', 'REGEX'] if nxt in ('REGEX', 'DIV', 'DIVEQUAL') else [nxt]
            offending = nxt is not None and nxt != 'RBRACE' and (all(not feed_viable(Tb, list(w[:i]) + [t]) for t in probe) or nxt in ('PLUSPLUS', 'MINUSMINUS'))
            for lay in LT_LAYOUTS + NOLT_LAYOUTS:
                lt = has_lt(lay)
                if not header and not allowed_by_tables:
                    continue              # the `;` is an empty statement: omitting it is simply another program
                if header:
                    exp = None            # 7.9.1: never in a for header
                elif nxt is None or nxt == 'RBRACE':
                    exp = w2
                elif offending and lt:
                    exp = w2
                elif offending and not lt:
                    exp = None
                else:
                    continue              # the next token continues the statement: no insertion, different program
                out.append(('omit', i, lay, exp))
        if t in ('RETURN', 'BREAK', 'CONTINUE', 'THROW') and i + 1 < n and w[i + 1] not in ('SEMI', 'AUTOSEMI', 'RBRACE') and (i == 0 or w[i - 1] != 'PERIOD'):
            w2 = w[:i + 1] + ('AUTOSEMI',) + w[i + 1:]
            exp = w2 if c05mod.engine_tree(w2, _TL['sp'], True) is not None else None
            for lay in LT_LAYOUTS:
                out.append(('break_after', i, lay, exp))
    return out


def build_text(w, sp, kind, i, lay):
    toks = [sp[t] for t in w]
    s = ''
    for j, t in enumerate(toks):
        if kind == 'omit' and j == i:
            s += lay
            continue
        s += t
        if kind == 'break_after' and j == i:
            s += lay
        elif not (kind == 'omit' and j + 1 == i):
            s += ' '
    return s


def classify(w, kind, i, lay, exp):
    nxt = w[i + 1] if i + 1 < len(w) else None
    if kind == 'omit':
        if nxt in ('PLUSPLUS', 'MINUSMINUS'):
            return K_POSTFIX
        if nxt == 'REGEX' and exp:
            return K_REGEX_AFTER_ASI
        if re.search(r'[\n\r].*\*/\s*$', lay, re.S) and not lay.rstrip(' ').endswith('\n'):
            if lay.strip(' ') == '/*\n*/':
                return K_ML_COMMENT
            return K_COMMENT_AFTER_LT
        return 'C04 T: `;` omitted before %s (layout %r): %s' % (nxt or '<end>', lay, 'insertion expected' if exp else 'syntax error expected')
    if lay.startswith('/*') or lay.startswith('//'):
        return K_RESTRICTED_COMMENT
    return 'C04 T: line terminator after %s (layout %r)' % (w[i], lay)


def _tjob(chunk):
    sp, Tb = _TL['sp'], _TL['Tb']
    bad = []
    n = 0
    sp_ml = dict(sp, STRING="'s\\\nt'")          # a string literal with a line continuation: a multi-line token
    for w in chunk:
      for spx in ([sp, sp_ml] if 'STRING' in w else [sp]):
        for kind, i, lay, exp in cases(Tb, w):
            text = build_text(w, spx, kind, i, lay)
            ref = c05mod.engine_tree(exp, spx, True) if exp else None
            n += 1
            try:
                got = c05mod.text_tree(text)
            except Exception as e:
                got = None if type(e).__name__ in ('ECMASyntaxError', 'ECMARegexSyntaxError') else 'EXC %s: %s' % (type(e).__name__, e)
            if got != ref:
                bad.append((w, kind, i, lay, exp, text, spx is not sp))
    return n, bad


K_KW_PROPERTY = 'C04 N: a line terminator after return/break/continue/throw used as a property name in an object literal inserts a semicolon'
NL_EXTRA = [('ID', 'EQ', 'LBRACE', kw, 'COLON', 'NUMBER', 'RBRACE', 'SEMI') for kw in ('RETURN', 'BREAK', 'CONTINUE', 'THROW')] + \
           [('ID', 'EQ', 'ID', 'PERIOD', kw, 'PLUS', 'NUMBER', 'SEMI') for kw in ('RETURN', 'BREAK', 'CONTINUE', 'THROW')] + \
           [('ID', 'EQ', 'LBRACE', 'GETPROP', 'RETURN', 'LPAREN', 'RPAREN', 'LBRACE', 'RBRACE', 'RBRACE', 'SEMI')]


def _njob(chunk):
    """leg N: in a fully punctuated program a line terminator inserted between two tokens changes nothing, except directly after a
    restricted keyword in its statement role and directly before ++ / -- (7.9.1); gaps before a regex literal are C05's"""
    sp = _TL['sp']
    bad, n = [], 0
    for w in chunk:
        toks = [sp[t] for t in w]
        try:
            ref = c05mod.text_tree(' '.join(toks))
        except Exception:
            continue
        for g in range(1, len(w)):
            prev, nxt = w[g - 1], w[g]
            if nxt in ('PLUSPLUS', 'MINUSMINUS', 'REGEX'):
                continue
            as_property = prev in RESTRICTED and ((g >= 2 and w[g - 2] in ('PERIOD', 'GETPROP', 'SETPROP')) or nxt == 'COLON')
            if prev in RESTRICTED and not as_property:
                continue
            for lt in ('\n', '\r\n', '\u2028'):
                text = ' '.join(toks[:g]) + lt + ' '.join(toks[g:])
                n += 1
                try:
                    got = c05mod.text_tree(text)
                except Exception as e:
                    got = '%s: %s' % (type(e).__name__, e)
                if got != ref:
                    bad.append((w, g, text, got[:160], as_property))
                    break
            if as_property:
                # a restricted word as a property name with layout on both sides of it
                for lt in ('\n', '/*c*/', ' //c\n'):
                    text = ' '.join(toks[:g - 1]) + lt + toks[g - 1] + '\n' + ' '.join(toks[g:])
                    n += 1
                    try:
                        got = c05mod.text_tree(text)
                    except Exception as e:
                        got = '%s: %s' % (type(e).__name__, e)
                    if got != ref:
                        bad.append((w, g, text, got[:160], as_property))
                        break
    return n, bad


def structures(Tb, G, sp, th):
    ctx = c03mod.contexts(G)
    short = {}
    for t in G.terms:
        short[t] = (t,)
    ch = True
    while ch:
        ch = False
        for l, r in G.prods:
            if all(x in short for x in r):
                w = tuple(y for x in r for y in short[x])
                if l not in short or len(w) < len(short[l]):
                    short[l] = w
                    ch = True
    base = [w for w in gx.enumerate_accepted(Tb, G, 4) if 'AUTOSEMI' not in w and 'SEMI' in w]
    stmts = []
    for l, r in G.prods:
        if l in ctx:
            u, v = ctx[l]
            w = tuple(u) + tuple(y for x in r for y in short[x]) + tuple(v)
            w = tuple('SEMI' if t == 'AUTOSEMI' else t for t in w)
            if gx.lr_run(Tb, list(w)) is not None and 'SEMI' in w:
                stmts.append(w)
    stmts = list(dict.fromkeys(stmts))
    followers = [('ID', 'SEMI'), ('VAR', 'ID', 'SEMI'), ('LPAREN', 'ID', 'RPAREN', 'SEMI'), ('LBRACKET', 'RBRACKET', 'SEMI'), ('PLUSPLUS', 'ID', 'SEMI'),
                 ('MINUS', 'ID', 'SEMI'), ('IF', 'LPAREN', 'ID', 'RPAREN', 'SEMI'), ('FUNCTION', 'ID', 'LPAREN', 'RPAREN', 'LBRACE', 'RBRACE'),
                 ('LBRACE', 'RBRACE'), ('NUMBER', 'SEMI'), ('STRING', 'SEMI'), ('NEW', 'ID', 'SEMI'), ('REGEX', 'SEMI'), ('THIS', 'SEMI'), ('SEMI',)]
    pairs = []
    for s1 in stmts:
        if len(s1) > 9:
            continue
        for f in followers:
            v = s1 + f
            if gx.lr_run(Tb, list(v)) is not None:
                pairs.append(v)
            v2 = ('LBRACE',) + s1 + f + ('RBRACE',)
            if th and gx.lr_run(Tb, list(v2)) is not None:
                pairs.append(v2)
            v3 = ('FUNCTION', 'ID', 'LPAREN', 'RPAREN', 'LBRACE') + s1 + f + ('RBRACE',)
            if gx.lr_run(Tb, list(v3)) is not None and (th or s1[0] in ('RETURN', 'BREAK', 'CONTINUE', 'THROW')):
                pairs.append(v3)
            # the same inside parentheses (immediately invoked function, callback argument)
            v4 = ('LPAREN', 'FUNCTION', 'LPAREN', 'RPAREN', 'LBRACE') + s1 + f + ('RBRACE', 'RPAREN', 'LPAREN', 'RPAREN', 'SEMI')
            if gx.lr_run(Tb, list(v4)) is not None and (th or f == ('ID', 'SEMI')):
                pairs.append(v4)
    return list(dict.fromkeys(base + stmts + pairs))


_TL = {}


def _sjob(args):
    kind, a = args
    if kind == 'asi':
        E, st = lexsx.run(lexsx.h_asi(_TL['Lexer'], _TL['dom'], a, True), max_decisions=6000)
    else:
        E, st = lexsx.run(lexsx.h_restricted(_TL['Lexer'], _TL['dom'], a[0], True, a[1]))
    return args, st, E.violations[:3], (E.unsupported + E.errors)[:2]


RAW_SPELL = {'LINE_TERMINATOR': '\n', 'LINE_COMMENT': '//c', 'BLOCK_COMMENT': '/*c*/', 'BLOCK_COMMENT_ML': '/*c\nd*/', 'STRING_ML': "'a\\\nb'"}
RESTRICTED = ('BREAK', 'CONTINUE', 'RETURN', 'THROW')


def layout_items(gap):
    """the layout between two real tokens as a list of 'LT' / 'C' (comment without terminator) / 'CML'"""
    items, i = [], 0
    while i < len(gap):
        kind, e = refscan.next_element(gap, i, False)
        if kind == 'lt':
            items.append('LT')
        elif kind == 'comment':
            items.append('CML' if any(c in gap[i:e] for c in '\n\r\u2028\u2029') else 'C')
        elif kind != 'ws':
            return None
        i = e
    return items


def concrete_asi_check(text):
    """the lexer-level obligations of leg S on a concrete text (real Lexer, no instrumentation): where the lexer itself emits
    AUTOSEMI, and what auto_semi answers for each real token, against the layout found in the text by an independent scan;
    the recorded known classes (comment before/after the terminator, multi-line comment) are not judged here (leg T does)"""
    from calmjs.parse.lexers.es5 import Lexer
    from calmjs.parse.lexers.tokens import AutoLexToken
    from calmjs.parse.exceptions import ECMASyntaxError
    L = Lexer()
    L.input(text)
    out, prev, prev_end, autos = [], None, None, 0
    for _ in range(400):
        try:
            tok = L.token()
        except ECMASyntaxError:
            return out
        if tok is None:
            break
        if isinstance(tok, AutoLexToken):
            autos += 1
            continue
        if prev is None:
            if autos:
                out.append('AUTOSEMI emitted before any real token')
        else:
            items = layout_items(text[prev_end:tok.lexpos])
            if items is None:
                return out
            nl = any(x in ('LT', 'CML') for x in items)
            if prev.type in RESTRICTED:
                if not (nl and items[:1] != ['LT']) and nl != (autos > 0):
                    out.append('restricted production: virtual semicolon %s after %r although a line terminator %s it and %r' % (
                        'emitted' if autos else 'not emitted', prev.value, 'does not separate' if autos else 'separates', tok.value))
                if autos > 1:
                    out.append('more than one virtual semicolon after a restricted keyword')
            elif autos:
                out.append('AUTOSEMI emitted by the lexer after %r, which is not return/break/continue/throw' % prev.value)
            saved = list(L.next_tokens)
            r = L.auto_semi(tok)
            L.next_tokens = saved
            expect = tok.type not in ('SEMI', 'AUTOSEMI') and (tok.type == 'RBRACE' or nl)
            if not (nl and items[-1:] != ['LT']) and expect != (r is not None):
                out.append('auto_semi: a semicolon is %s for the offending token %r although it is %s' % (
                    'supplied' if r is not None else 'refused', tok.value,
                    'not separated from the previous token by a line terminator and is not }' if r is not None else 'separated by a line terminator (or is })'))
        prev, prev_end, autos = tok, tok.lexpos + len(tok.value), 0
    if prev is not None:
        # end of input
        items = layout_items(text[prev_end:]) or []
        nl = any(x in ('LT', 'CML') for x in items)
        if prev.type in RESTRICTED:
            if not (nl and items[:1] != ['LT']) and nl != (autos > 0):
                out.append('restricted production: virtual semicolon %s after %r at the end of the input although a line terminator %s' % (
                    'emitted' if autos else 'not emitted', prev.value, 'does not follow' if autos else 'follows'))
            if autos > 1:
                out.append('more than one virtual semicolon after a restricted keyword')
        elif autos:
            out.append('AUTOSEMI emitted by the lexer after %r, which is not return/break/continue/throw' % prev.value)
    return out


def replay(d):
    w = d['input']
    if 'nl_text' in w:
        ref = c05mod.text_tree(w['plain'])
        try:
            got = c05mod.text_tree(w['nl_text'])
        except Exception as e:
            got = '%s: %s' % (type(e).__name__, e)
        return got != ref, 'text %r: %s; without the inserted line terminator (%r) the tree is %s' % (w['nl_text'], got[:200], w['plain'], ref[:120])
    if 'raw_kinds' in w:
        msgs = concrete_asi_check(w['text'])
        return bool(msgs), 'text %r (raw token kinds %s): %s' % (w['text'], ' '.join(w['raw_kinds']), '; '.join(msgs[:2]) or 'lexer-level obligations hold')
    p = boot.fresh_parser()
    sp = actions.spellings(type(p.lexer))
    c03mod._ENGINE['p'] = p
    if w.get('multiline_string'):
        sp = dict(sp, STRING="'s\\\nt'")
    ref = c05mod.engine_tree(w['expected_tokens'], sp, True) if w.get('expected_tokens') else None
    try:
        got = c05mod.text_tree(w['text'])
    except Exception as e:
        got = None if type(e).__name__ in ('ECMASyntaxError', 'ECMARegexSyntaxError') else 'EXC %s: %s' % (type(e).__name__, e)
        err = str(e)
    return (got != ref), 'text %r: parse() %s; 7.9 over the real tables prescribes %s' % (
        w['text'], ('gives ' + got[:160]) if got else 'raises a syntax error',
        ('the tree of %r' % ' '.join(w['expected_tokens'])) if ref else 'a syntax error')


def main():
    run = common.Run('C04', 'other')
    th = run.thorough()
    boot.load_plain()
    boot.warm_tabs()
    p = boot.fresh_parser()
    c03mod._ENGINE['p'] = p
    Tb, G = gx.extract(p)
    sp = actions.spellings(type(p.lexer))
    structs = structures(Tb, G, sp, th)
    if not th:
        structs = structs[::3]
    _TL.update(sp=sp, Tb=Tb)
    chunks = [structs[i::64] for i in range(64)]
    tres = common.pmap(_tjob, chunks)
    ntext = sum(r[0] for r in tres)
    from .. import replay as rp
    pending = {}
    for n, bad in tres:
        for w, kind, i, lay, exp, text, ml in bad:
            key = classify(w, kind, i, lay, exp)
            pending.setdefault(key, {'property': 'C04', 'input': {'tokens': list(w), 'text': text, 'layout': lay, 'expected_tokens': list(exp) if exp else None, 'case': kind, 'multiline_string': ml}})
    for key, rpd in list(pending.items())[:30]:
        ok, detail = rp.run_in_subprocess(rpd)
        if ok:
            run.violation(key, detail[:500], rpd)
        else:
            run.inconclusive_('text-level difference did not reproduce: %s %s' % (key, detail[:200]))
    # ---- leg N: line terminators inserted where 7.9 gives them no effect
    nstructs = [w for w in structs if len(w) <= 10] + [w for w in NL_EXTRA if gx.lr_run(Tb, list(w)) is not None]
    nres = common.pmap(_njob, [nstructs[i::64] for i in range(64)])
    ntext += sum(r[0] for r in nres)
    npending = {}
    for n_, bad in nres:
        for w, g, text, got, as_property in bad:
            if as_property and g < len(w) and w[g] == 'COLON':
                key = K_KW_PROPERTY
            else:
                key = 'C04 N: a line terminator between %s and %s changes the parse' % (w[g - 1], w[g])
            npending.setdefault(key, {'property': 'C04', 'input': {'nl_text': text, 'plain': ' '.join(sp[t] for t in w)}})
    for key, rpd in list(npending.items())[:30]:
        ok, detail = rp.run_in_subprocess(rpd)
        if ok:
            run.violation(key, detail[:500], rpd)
        else:
            run.inconclusive_('line-terminator difference did not reproduce: %s' % key)
    run.leg('N_line_terminator_transparency', structures=len(nstructs))
    # ---- leg S
    src = boot.scratch_dir()
    sx.install(src)
    from calmjs.parse.lexers.es5 import Lexer
    dom = rawsx.RawDomain(Lexer)
    _TL.update(Lexer=Lexer, dom=dom)
    jobs = [('asi', n) for n in range(1, (4 if th else 3) + 1)] + [('restricted', (pat, npre)) for pat in ('', 'L', 'LL', 'LLL') for npre in (0, 1, 2)]
    sres = common.pmap(_sjob, jobs)
    tot = dict(paths=0, reached=0, z3_checks=0, assertions=0, solver_s=0.0)
    samples = []
    for args, st, viols, errs in sres:
        for k in tot:
            tot[k] += st[k]
        if st['unsupported'] or st['errors'] or st['bound_hits']:
            run.inconclusive_('harness %r: %r' % (args, errs))
        if st['reached'] == 0:
            run.inconclusive_('harness %r vacuous' % (args,))
        samples.append({'harness': repr(args), 'stats': st})
        for msg, w in viols[:2]:
            names = dom.names
            kinds = [names[int(v)] for k, v in sorted(w.items()) if re.fullmatch(r'k\d+', k) and str(v).isdigit()]
            text = ' '.join(RAW_SPELL.get(k, sp.get(k, k)) for k in kinds)
            rpd = {'property': 'C04', 'input': {'raw_kinds': kinds, 'text': text}}
            ok, detail = rp.run_in_subprocess(rpd)
            if ok:
                run.violation('C04 S: ' + re.sub(r"%r|'(?:[^'\\\\]|\\\\.)*'", '..', msg)[:110], detail[:500], rpd)
            else:
                run.inconclusive_('lexer-level ASI obligation fails for raw kinds %r: %s (did not reproduce on the text %r)' % (kinds, msg[:140], text))
    run.coverage.update({
        'explanation': 'S: real Lexer wrapper (auto_semi, _is_prev_token_lt, _get_update_token, _token) under SX on <= %d raw items of symbolic kind vs a ghost of the raw '
                       'sequence; T: %d texts = table-derived structures x every statement-terminating `;` x %d layouts, judged against 7.9 evaluated on the real LALR tables.' % (
                           4 if th else 3, ntext, len(LT_LAYOUTS) + len(NOLT_LAYOUTS)),
        'evaluations': tot['paths'] + ntext, 'distinct_nontrivial': tot['reached'] + len(structs),
        'rule': 'S: one evaluation per SX path (class of raw kind sequences); T: one per (structure, omitted `;` or restricted keyword, layout)',
        'samples': samples[:4] + [{'T_structures': len(structs)}], 'queries': tot['z3_checks'], 'solver_s': round(tot['solver_s'], 1),
        'assertions_discharged': tot['assertions'],
        'bounds': {'S': 'all kind sequences of <= %d raw items; restricted keyword + <= 3 layout items' % (4 if th else 3), 'T': '%d structures' % len(structs),
                   'outside': 'subsets of more than one omitted `;` at a time; longer programs'},
    })
    run.assumptions += ['raw-token source models the regex level', 'offending token = prefix.token not viable in the real LALR tables (C03 relates them to ES5), or ++/-- after a line terminator']
    return run.finish()
