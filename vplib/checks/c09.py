"""C09 - the source map decodes to exactly the positions the fragments carried.

Legs (all decided by z3 over the real code under SX; ref decoder = ref/sourcemap_ref.py):
 W  one step of the real sourcemap.write from an ARBITRARY valid writer state (symbolic Bookkeeper contents,
    symbolic Names tables, symbolic generated column) on one fragment of every shape: the emitted segments decode
    (continuing a conforming decoder whose accumulators match the state) to the fragment's position, and the
    representation invariant is re-established.  Induction over the stream => streams of any length.
 N  the real normalize_mapping_line on lines of <= n segments of symbolic values with arbitrary carried column:
    every original segment is recovered from the governing normalised segment by linear interpolation, the
    carried column is the un-emitted delta (induction over lines).
 E  whole runs of write(normalize in {False, True}) from the initial state on streams of <= k fragments, decoded
    from scratch: base case of W's induction and the composition W;N, plus encode_sourcemap plumbing.
"""
import sys, os, re, time, itertools
import z3
from .. import boot, common, sx, symtext
from ..sx import SIntZ, SBool, SEnum

sys.path.insert(0, common.VERIF)
from ref import sourcemap_ref

NAMES = ['nameA', 'b', 'third_name']
SOURCES = ['a.js', 'lib/b.js', 'c.js']


def _load():
    src = boot.scratch_dir()
    sx.install(src)
    import calmjs.parse.sourcemap as sm
    import logging
    logging.disable(logging.CRITICAL)
    return sm


class Sink:
    def __init__(self):
        self.pieces = []

    def write(self, s):
        self.pieces.append(s)


class SymNameTable:
    """stands for Names._names in an arbitrary state: some known keys with symbolic distinct indices below a
    symbolic size, plus unknown other entries"""
    def __init__(self, tag, known):
        E = sx.E
        self.size = SIntZ(z3.Int(tag + '_size'))
        self.known = {}
        E.solver.add(self.size.e >= len(known), self.size.e <= 10 ** 6)
        idxs = []
        for j, k in enumerate(known):
            v = SIntZ(z3.Int('%s_idx%d' % (tag, j)))
            E.solver.add(v.e >= 0, v.e < self.size.e)
            idxs.append(v.e)
            self.known[k] = v
        if len(idxs) > 1:
            E.solver.add(z3.Distinct(idxs))
        self.added = []

    @property
    def sym_len(self):
        return self.size

    def __contains__(self, k):
        return any(k is kk or (type(k) is type(kk) and k == kk) for kk in self.known)

    def _key(self, k):
        for kk in self.known:
            if k is kk or (type(k) is type(kk) and k == kk):
                return kk
        raise KeyError(k)

    def __getitem__(self, k):
        return self.known[self._key(k)]

    def __setitem__(self, k, v):
        # Names.update stores len(self._names) for a new key
        self.known[k] = v
        self.added.append(k)
        self.size = SIntZ(z3.simplify(self.size.e + 1))

    def items(self):
        return list(self.known.items())


sx.register_symbolic(SymNameTable)
_old_len = sx.MODELS[len]


def _m_len(x):
    if isinstance(x, SymNameTable):
        return x.sym_len
    return _old_len(x)


sx.MODELS[len] = _m_len


# ------------------------------------------------------------------------------------------ leg W
POS_KINDS = ['N', 'Z', 'P']
TEXT_SHAPES = ['', 'R', 'RT', 'T', 'RTR', 'RTRT', 'TR']
NAME_KINDS = ['none', 'known', 'new', 'known_is_current']
SRC_KINDS = ['none', 'known', 'new', 'known_is_current', 'notimpl_new', 'notimpl_known']


def h_step(sm, pos, shape, namek, srck):
    def harness():
        E = sx.E
        # ---- arbitrary valid writer state
        book = sm.default_book()
        kp = book.keeper
        G = SIntZ(z3.Int('G'))               # ghost: generated column now
        prevG = SIntZ(z3.Int('prevG'))       # generated column of the last emitted segment on this line
        E.solver.add(prevG.e >= 0, prevG.e <= G.e, G.e <= 10 ** 7)
        kp._curr['sink_column'] = G
        kp._prev['sink_column'] = prevG
        sl = SIntZ(z3.Int('cur_src_line'))
        sc = SIntZ(z3.Int('cur_src_col'))
        E.solver.add(sl.e >= 1, sc.e >= 1, sl.e <= 10 ** 7, sc.e <= 10 ** 7)
        junk1, junk2 = SIntZ(z3.Int('junk1')), SIntZ(z3.Int('junk2'))
        kp._curr['source_line'] = sl
        kp._prev['source_line'] = junk1
        kp._curr['source_column'] = sc
        kp._prev['source_column'] = junk2
        ol = SIntZ(z3.Int('orig_len'))
        wl = SIntZ(z3.Int('written_len'))
        E.solver.add(ol.e >= 0, wl.e >= 0, ol.e <= 10 ** 6, wl.e <= 10 ** 6)
        book.original_len = ol
        book.written_len = wl
        names = sm.Names()
        sources = sm.Names()
        kn = [NAMES[0], NAMES[1]]
        ks = [SOURCES[0], SOURCES[1]] + ([NotImplemented] if srck == 'notimpl_known' else [])
        names._names = SymNameTable('names', kn)
        sources._names = SymNameTable('sources', ks)
        ncur = SIntZ(z3.Int('names_current'))
        scur = SIntZ(z3.Int('sources_current'))
        E.solver.add(ncur.e >= 0, ncur.e < names._names.size.e, scur.e >= 0, scur.e < sources._names.size.e)
        names._current = ncur
        sources._current = scur
        # conforming decoder accumulators matching the state (representation invariant)
        D = dict(gencol=prevG, src=scur, line=SIntZ(z3.simplify(sl.e - 1)), col=SIntZ(z3.simplify(sc.e - 1)), name=ncur)
        # ---- the fragment
        if pos == 'N':
            ln = cn = None
        elif pos == 'Z':
            ln = cn = 0
        else:
            ln, cn = SIntZ(z3.Int('lineno')), SIntZ(z3.Int('colno'))
            E.solver.add(ln.e >= 1, cn.e >= 1, ln.e <= 10 ** 7, cn.e <= 10 ** 7)
        text, nterm, lines = symtext.make_text(shape, 'f')
        if namek == 'none':
            oname = None
        elif namek == 'new':
            oname = NAMES[2]
        else:
            oname = NAMES[0]
            if namek == 'known_is_current':
                E.solver.add(names._names.known[NAMES[0]].e == ncur.e)
        if srck == 'none':
            source = None
        elif srck == 'new':
            source = SOURCES[2]
        elif srck in ('notimpl_new', 'notimpl_known'):
            source = NotImplemented
        else:
            source = SOURCES[0]
            if srck == 'known_is_current':
                E.solver.add(sources._names.known[SOURCES[0]].e == scur.e)
        mappings = [[]]
        sink = Sink()
        out_mappings, out_sources, out_names = sm.write([(text, ln, cn, oname, source)], sink, normalize=False,
                                                        book=book, sources=sources, names=names, mappings=mappings)
        # ---- oracle
        ok = E.check(len(mappings) == 1 + nterm, 'number of mapping lines != 1 + number of line terminators written')
        ok &= E.check(len(sink.pieces) == len(lines) and all(a is b for a, b in zip(sink.pieces, lines)),
                      'text written to the stream differs from the fragment text')
        segs = [s for line in mappings for s in line]
        ok &= E.check(len(segs) == len(lines) and (not lines or len(mappings[0]) >= 1), 'not exactly one segment per written line piece')
        if not ok:
            return
        dec = sourcemap_ref.decode_relative(mappings, D)     # absolute entries, continuing from D
        for li, line_entries in enumerate(dec):
            for e in line_entries:
                E.check(e['gencol_delta_ok'], 'generated columns decrease within a line')
        if lines:
            first = dec[0][0]
            E.check(first['gencol'] == G, 'segment of the fragment is not at the generated column where it was written')
            if pos == 'P':
                E.check(first['kind'] in (4, 5), 'explicitly positioned fragment emitted as unmapped')
                if first['kind'] in (4, 5):
                    E.check(first['line'] == ln - 1, 'decoded source line != fragment line')
                    E.check(first['col'] == cn - 1, 'decoded source column != fragment column')
                    exp_src = D['src'] if source is None else sources._names[source]
                    E.check(first['src'] == exp_src, 'decoded source index != fragment source')
                    if oname is not None:
                        E.check(first['kind'] == 5 and first['name'] == names._names[oname], 'decoded name != original name')
                    else:
                        E.check(first['kind'] == 4, 'name attached to a fragment that was not renamed')
            if pos == 'N':
                E.check(all(e['kind'] == 1 for le in dec for e in le), 'position-less fragment is mapped')
        # index ranges
        for le in dec:
            for e in le:
                if e['kind'] in (4, 5):
                    E.check((e['src'] >= 0) & (e['src'] < sources._names.size), 'source index out of range')
                if e['kind'] == 5:
                    E.check((e['name'] >= 0) & (e['name'] < names._names.size), 'name index out of range')
        # ---- invariant re-established
        if lines and lines[-1].term is None:
            G2 = SIntZ(z3.simplify(sx.zint(G if nterm == 0 else 0) + lines[-1].sym_len.e))
            last_start = G if nterm == 0 else 0
        elif lines:
            G2 = 0
            last_start = 0
        else:
            G2 = G
            last_start = prevG
        E.check(kp._curr['sink_column'] == G2, 'invariant: sink column != generated column after the fragment')
        E.check(kp._prev['sink_column'] == last_start, 'invariant: previous sink column != column of the last emitted segment')
        final = None
        for le in dec:
            for e in le:
                final = e
        if final is not None:
            E.check(kp._curr['source_line'] - 1 == final['acc_line'], 'invariant: keeper source line != decoder line')
            E.check(kp._curr['source_column'] - 1 == final['acc_col'], 'invariant: keeper source column != decoder column')
            E.check(sources._current == final['acc_src'], 'invariant: sources._current != decoder source index')
            E.check(names._current == final['acc_name'], 'invariant: names._current != decoder name index')
        # lengths remembered for inferred columns
        if lines and lines[-1].term is None:
            E.check(book.written_len == lines[-1].sym_len, 'invariant: written_len')
        elif lines:
            E.check((book.written_len == 0) & (book.original_len == 0), 'invariant: lengths reset after newline')
    return harness


# ------------------------------------------------------------------------------------------ leg N
def h_normalize(sm, arities):
    def harness():
        E = sx.E
        carry = SIntZ(z3.Int('carry'))
        line = []
        for j, ar in enumerate(arities):
            seg = tuple(SIntZ(z3.Int('s%d_%d' % (j, a))) for a in range(ar))
            if ar:
                E.solver.add(seg[0].e >= 0)
            line.append(seg)
        res, carry_out = sm.normalize_mapping_line(line, carry)
        # reference: decode both from decoder states that differ by the carried column
        base = dict(gencol=0, src=SIntZ(z3.Int('B_src')), line=SIntZ(z3.Int('B_line')), col=SIntZ(z3.Int('B_col')),
                    name=SIntZ(z3.Int('B_name')))
        o_state = dict(base)
        o_state['col'] = SIntZ(z3.simplify(base['col'].e + carry.e))
        orig = sourcemap_ref.decode_relative([[s for s in line if len(s)]], o_state)[0]
        norm = sourcemap_ref.decode_relative([res], dict(base))[0]
        for e in norm:
            E.check(e['gencol_delta_ok'], 'normalised generated columns decrease')
        nn = len(norm)
        for j, o in enumerate(orig):
            # positive-width condition: a zero-width piece has no characters to look up
            nxt = orig[j + 1] if j + 1 < len(orig) else None
            width_pos = z3.BoolVal(True) if nxt is None else (nxt['gencol'] > o['gencol']).e
            alts = []
            for i, e in enumerate(norm):
                isgov = z3.And([_zb(e['gencol'] <= o['gencol'])] + [z3.Not(_zb(norm[i2]['gencol'] <= o['gencol'])) for i2 in range(i + 1, nn)])
                if o['kind'] == 1:
                    P = z3.BoolVal(e['kind'] == 1)
                else:
                    if e['kind'] == 1:
                        P = z3.BoolVal(False)
                    else:
                        P = z3.And((e['src'] == o['src']).e, (e['line'] == o['line']).e,
                                   (e['col'] + (o['gencol'] - e['gencol']) == o['col']).e)
                        if o['kind'] == 5:
                            P = z3.And(P, z3.BoolVal(e['kind'] == 5), (e['gencol'] == o['gencol']).e,
                                       (e['name'] == o['name']).e if e['kind'] == 5 else z3.BoolVal(False))
                        else:
                            # a 4-segment must not inherit a name: either its own regenerated 4-entry, or an
                            # interpolation from a 4-entry
                            P = z3.And(P, z3.BoolVal(e['kind'] == 4))
                alts.append(z3.And(isgov, P))
            none_before = z3.And([z3.Not((e['gencol'] <= o['gencol']).e) for e in norm] or [z3.BoolVal(True)])
            if o['kind'] == 1:
                ok = z3.Or(alts + [none_before])
            else:
                ok = z3.Or(alts) if alts else z3.BoolVal(False)
            E.check(z3.Implies(width_pos, ok), 'original segment #%d (arity %d) is not recovered from the normalised line' % (j, o['kind']))
        # carry invariant: un-emitted column delta
        o_end = orig[-1]['acc_col'] if orig else o_state['col']
        n_end = norm[-1]['acc_col'] if norm else base['col']
        E.check(o_end == n_end + carry_out, 'carried column is not the un-emitted column delta')
        o_src = orig[-1]['acc_src'] if orig else base['src']
        n_src = norm[-1]['acc_src'] if norm else base['src']
        o_ln = orig[-1]['acc_line'] if orig else base['line']
        n_ln = norm[-1]['acc_line'] if norm else base['line']
        o_nm = orig[-1]['acc_name'] if orig else base['name']
        n_nm = norm[-1]['acc_name'] if norm else base['name']
        E.check((o_src == n_src) & (o_ln == n_ln) & (o_nm == n_nm), 'normalisation loses a source/line/name delta')
    return harness


# ------------------------------------------------------------------------------------------ leg E
E_ALPHABET = [  # (pos, shape, name, source)
    ('P', 'R', None, 'a.js'), ('P', 'R', 'nameA', None), ('P', 'RT', None, None), ('P', 'RTR', None, 'lib/b.js'),
    ('Z', 'R', None, None), ('Z', 'T', None, None), ('N', 'R', None, None), ('N', 'RT', None, None),
    ('P', 'R', 'b', 'lib/b.js'), ('P', 'R', None, NotImplemented), ('Z', '', None, None), ('P', 'RTRT', 'nameA', 'a.js'),
]


def h_end2end(sm, frs, normalize):
    def harness():
        E = sx.E
        frags = []
        ghost = []
        gl, gc = 0, SIntZ(z3.IntVal(0))
        for k, (pos, shape, name, source) in enumerate(frs):
            if pos == 'N':
                ln = cn = None
            elif pos == 'Z':
                ln = cn = 0
            else:
                ln, cn = SIntZ(z3.Int('ln%d' % k)), SIntZ(z3.Int('cn%d' % k))
                E.solver.add(ln.e >= 1, cn.e >= 1, ln.e <= 10 ** 6, cn.e <= 10 ** 6)
            text, nterm, lines = symtext.make_text(shape, 'f%d' % k)
            frags.append((text, ln, cn, name, source))
            ghost.append((gl, gc, pos, ln, cn, name, source, lines))
            for l in lines:
                if l.term is None:
                    gc = SIntZ(z3.simplify(gc.e + l.sym_len.e))
                else:
                    gl += 1
                    gc = SIntZ(z3.IntVal(0))
        sink = Sink()
        mappings, sources, names = sm.write(frags, sink, normalize=normalize)
        if not E.check(len(mappings) == gl + 1, 'number of mapping lines != number of text lines'):
            return
        real_enc = sm.encode_mappings
        sm.encode_mappings = lambda m: ('VLQ-TEXT-OF', m)      # stub: the VLQ text is C10's subject
        try:
            enc = sm.encode_sourcemap('out.js', mappings, sources, names)
        finally:
            sm.encode_mappings = real_enc
        E.check(enc['sources'] is sources and enc['names'] is names and enc['file'] == 'out.js' and enc['version'] == 3
                and enc['mappings'][1] is mappings, 'encode_sourcemap does not pass the mappings/sources/names through')
        dec = sourcemap_ref.decode_relative(mappings, dict(gencol=0, src=0, line=0, col=0, name=0))
        cur_src = None
        for gi, (fl, fc, pos, ln, cn, name, source, lines) in enumerate(ghost):
            if source is not None:
                cur_src = source
            if pos != 'P' or not lines:
                continue
            exp_src = 'about:invalid' if (cur_src is NotImplemented or cur_src is None) else cur_src
            ents = dec[fl]
            alts = []
            nn = len(ents)
            for i, e in enumerate(ents):
                isgov = z3.And([_zb(e['gencol'] <= fc)] + [z3.Not(_zb(ents[i2]['gencol'] <= fc)) for i2 in range(i + 1, nn)])
                if e['kind'] == 1:
                    continue
                srcs_ok = [z3.And(_zb(e['src'] == si)) for si, s in enumerate(sources) if s == exp_src]
                P = z3.And(_zb(e['line'] == ln - 1), _zb(e['col'] + (fc - e['gencol']) == cn - 1), z3.Or(srcs_ok or [z3.BoolVal(False)]),
                           _zb((e['src'] >= 0) & (e['src'] < len(sources))))
                if name is not None:
                    nm_ok = [z3.And(_zb(e['name'] == ni)) for ni, s in enumerate(names) if s == name] if e['kind'] == 5 else []
                    P = z3.And(P, _zb(e['gencol'] == fc), z3.Or(nm_ok or [z3.BoolVal(False)]))
                else:
                    P = z3.And(P, z3.BoolVal(e['kind'] == 4))
                alts.append(z3.And(isgov, P))
            # zero-width exemption does not apply: lines is non-empty and its first piece has >= 1 char or a terminator
            E.check(z3.Or(alts) if alts else z3.BoolVal(False),
                    'fragment #%d: the decoded map does not give its source/line/column/name' % gi)
        for le in dec:
            for e in le:
                E.check(e['gencol_delta_ok'], 'generated columns decrease within a line')
    return harness


def _zb(x):
    if isinstance(x, bool):
        return z3.BoolVal(x)
    return x.e


# ------------------------------------------------------------------------------------------ driver
_TL = {}


def _run_task(task):
    kind, args = task
    sm = _TL['sm']
    E = sx.new_engine(max_decisions=3000, timeout_ms=120000)
    h = {'W': h_step, 'N': h_normalize, 'E': h_end2end}[kind](sm, *args)
    t = time.time()
    E.explore(h)
    st = E.stats()
    st['wall'] = round(time.time() - t, 2)
    return kind, args, st, E.violations[:6], E.unsupported[:3] + E.errors[:3]


def _classify(kind, args, msg):
    """normal form of a violation, used to match known findings"""
    if kind == 'E' and msg.startswith('fragment #'):
        frs = args[0]
        i = int(msg.split('#')[1].split(':')[0])
        if all(f[3] is None for f in frs[:i + 1]) and any(f[3] not in (None, NotImplemented) for f in frs[i + 1:]):
            return 'E: fragment before the first named source decodes to a later fragment\'s source instead of about:invalid'
        return 'E: %s | %s' % (msg.split(':', 1)[1].strip(), '/'.join('%s-%s-%s-%s' % (f[0], f[1] or 'e', 'n' if f[2] else '', 's' if f[3] else '') for f in frs))
    return '%s: %s' % (kind, msg)


K_SPLIT_CRLF = 'C: the CR and the LF of one CRLF arrive in two fragments and are counted as two line breaks'
C_TEXTS = ['a', 'ab\n', 'a\r', 'a\rb', 'a\r\nb', '\r', '\n', '\r\n', '/* a\rb\nc */', 'x\n\ny', '', 'a\n\rb', '\rb']


def _c_streams():
    frs = []
    for i, t in enumerate(C_TEXTS):
        frs.append((t, 1 + i % 3, 1 + (i * 7) % 5, None, 'src%d.js' % (i % 2)))
        frs.append((t, None, None, None, None))
    frs.append(('n', 3, 9, 'orig', 'src0.js'))
    out = []
    for a in frs:
        out.append(((a,), False))
        for b in frs:
            out.append(((a, b, ('z', 7, 7, None, 'src1.js')), False))
            out.append(((a, b, ('z', 7, 7, None, 'src1.js')), True))
    return out


C_STREAMS = _c_streams()


def _cjob(chunk):
    import io
    import calmjs.parse.sourcemap as sm
    bad, n = [], 0
    for frs, nz in chunk:
        n += 1
        out = io.StringIO()
        try:
            mappings, sources, names = sm.write(list(frs), out, normalize=nz)
            ok, msg = sourcemap_ref.check_stream(list(frs), out.getvalue(), mappings, sources, names)
        except Exception as e:
            ok, msg = False, 'exception %s: %s' % (type(e).__name__, e)
        if not ok:
            bad.append((frs, nz, msg))
    return n, bad


def replay(d):
    """plain package: concrete stream -> write -> reference decode -> compare"""
    import io
    import calmjs.parse.sourcemap as sm
    w = d['input']
    if w.get('leg') == 'N':
        line = [tuple(s) for s in w['line']]
        res, carry_out = sm.normalize_mapping_line(line, w['carry'])
        ok, msg = sourcemap_ref.check_normalized_line(line, w['carry'], res, carry_out)
        return (not ok), 'normalize_mapping_line(%r, %r) -> %r, %r: %s' % (line, w['carry'], res, carry_out, msg)
    frags = [tuple(NotImplemented if x == '<NotImplemented>' else x for x in f) for f in w['fragments']]
    kw = {}
    if w.get('leg') == 'W':
        return sourcemap_ref.replay_step(sm, w)
    out = io.StringIO()
    mappings, sources, names = sm.write(frags, out, normalize=w['normalize'])
    ok, msg = sourcemap_ref.check_stream(frags, out.getvalue(), mappings, sources, names)
    return (not ok), 'write(%r, normalize=%r) -> %r %r %r: %s' % (frags, w['normalize'], mappings, sources, names, msg)


def main():
    run = common.Run('C09', 'other')
    sm = _load()
    _TL['sm'] = sm
    th = run.thorough()
    tasks = []
    for pos in POS_KINDS:
        for shape in TEXT_SHAPES:
            for nk in NAME_KINDS:
                for sk in SRC_KINDS:
                    tasks.append(('W', (pos, shape, nk, sk)))
    maxn = 6 if th else 4
    ar_alpha = (1, 4, 5)
    for n in range(0, maxn + 1):
        for ars in itertools.product(ar_alpha, repeat=n):
            tasks.append(('N', (ars,)))
    if th:
        for n in range(1, 4):
            for ars in itertools.product((0, 1, 4, 5), repeat=n):
                if 0 in ars:
                    tasks.append(('N', (ars,)))
    maxk = 4 if th else 2
    for k in range(1, maxk + 1):
        for frs in itertools.product(E_ALPHABET if k < 4 else E_ALPHABET[:6], repeat=k):
            for nz in (False, True):
                tasks.append(('E', (frs, nz)))
    results = common.pmap(_run_task, tasks, chunksize=4)
    tot = dict(paths=0, reached=0, z3_checks=0, assertions=0, solver_s=0.0)
    per = {}
    samples = []
    from .. import replay as rp
    seen = set()
    for kind, args, st, viols, unsup in results:
        for k in tot:
            tot[k] += st[k]
        pk = per.setdefault(kind, dict(tasks=0, paths=0, z3_checks=0, assertions=0, solver_s=0.0))
        pk['tasks'] += 1
        for k in ('paths', 'z3_checks', 'assertions', 'solver_s'):
            pk[k] = round(pk[k] + st[k], 3)
        if st['unsupported'] or st['bound_hits'] or st['errors']:
            run.inconclusive_('%s%r: unsupported/errors=%r bound_hits=%d' % (kind, args, unsup, st['bound_hits']))
        if st['reached'] == 0:
            run.inconclusive_('%s%r: vacuous - no path reached an assertion' % (kind, args))
        if kind not in [s['leg'] for s in samples]:
            samples.append({'leg': kind, 'task': repr(args), 'stats': st})
        for msg, w in viols:
            key = _classify(kind, args, msg)
            if key in seen:
                continue
            seen.add(key)
            rpd = {'property': 'C09', 'input': sourcemap_ref.concretize(kind, args, w), 'law': msg}
            ok, detail = rp.run_in_subprocess(rpd)
            if ok:
                run.violation(key, '%s; task %r; %s' % (msg, args, detail[:400]), rpd)
            else:
                run.inconclusive_('counterexample did not reproduce on the plain package: %s %r %s' % (msg, args, detail[:300]))
    # ---- leg C (concrete, replay level): streams whose texts carry LF / CR / CRLF in every position of a chunk, through the plain
    # package and the reference decoder.  It validates the SymText model of the symbolic legs (which line breaks a chunk has) and
    # is the fall-back when a change makes the symbolic legs inconclusive (an operation on text the models do not cover).
    cres = common.pmap(_cjob, [C_STREAMS[i::32] for i in range(32)])
    nconc = sum(r[0] for r in cres)
    for n, bad in cres:
        for frs, nz, msg in bad:
            key = 'C: ' + re.sub(r"#\d+|%r|'(?:[^'\\]|\\.)*'|\(.*?\)|\d+", '..', msg)[:90]
            if any(a[0].endswith('\r') and b[0].startswith('\n') for a, b in zip(frs, frs[1:])):
                key = K_SPLIT_CRLF
            if key in seen:
                continue
            seen.add(key)
            rpd = {'property': 'C09', 'input': {'fragments': [list(f) for f in frs], 'normalize': nz}, 'law': msg}
            ok, detail = rp.run_in_subprocess(rpd)
            if ok:
                run.violation(key, detail[:500], rpd)
            else:
                run.inconclusive_('concrete stream failure did not reproduce: %s' % msg[:200])
    run.leg('C_concrete_streams', streams=nconc)
    run.coverage.update({
        'explanation': 'SX symbolic execution of the real sourcemap.write (one inductive step from an arbitrary valid writer state per '
                       'fragment shape; whole runs from the initial state), normalize_mapping_line/normalize_mappings (bounded line length, '
                       'arbitrary carry) and encode_sourcemap, against a Source Map V3 reference decoder evaluated on the same symbolic '
                       'segments; all positions, lengths, indices are z3 Ints, line-terminator kinds are finite-domain symbols.',
        'functions_encoded': boot.func_fingerprint(sm.write, sm.normalize_mapping_line, sm.normalize_mappings, sm.Names, sm.Bookkeeper,
                                                   sm.Book, sm.default_book, sm.encode_sourcemap),
        'bounds': {'W': 'one fragment of each of %d shapes (position kind x text shape x name kind x source kind) from an arbitrary state; text shapes %r' % (
                        len(POS_KINDS) * len(TEXT_SHAPES) * len(NAME_KINDS) * len(SRC_KINDS), TEXT_SHAPES),
                   'N': 'lines of <= %d segments of arity 1/4/5 (thorough: also empty tuples), all integer values, arbitrary carried column' % maxn,
                   'E': 'streams of <= %d fragments over a %d-letter fragment alphabet (length 4: its first 6 letters), normalize on/off' % (maxk, len(E_ALPHABET)),
                   'outside': 'fragments whose text has more than two line pieces; fragments giving only one of line/column; '
                              'CR and LF of one CRLF split over two fragments; the VLQ text itself is C10'},
        'queries': tot['z3_checks'], 'paths': tot['paths'], 'assertions_discharged': tot['assertions'],
        'solver_s': round(tot['solver_s'], 2), 'per_leg': per,
        'evaluations': tot['paths'], 'distinct_nontrivial': tot['reached'],
        'rule': 'one evaluation = one symbolic path of the real code for one fragment/line/stream shape; all integer data symbolic',
        'samples': samples,
    })
    run.assumptions += ['ref/sourcemap_ref.py is the reading of the Source Map V3 segment semantics (relative fields, per-line generated column reset)',
                        'representation invariant of the writer state as stated in DESIGN.md C09 (its base case is leg E)',
                        'body characters of a run are not line terminators; a fragment gives both or neither of line/column',
                        'SX instrumentation preserves concrete semantics']
    return run.finish()
