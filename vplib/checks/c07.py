"""C07 - name obfuscation is a consistent, capture-free renaming.

Leg N (SX): NameGenerator.__iter__ with a SYMBOLIC skip set member and symbolic product tuple: a yielded symbol is never
in `skip`; minify_printer hands every lexer keyword to the obfuscator's reserved list (checked on the live objects).
Leg E (exhaustive over a bounded space, replay level): scope skeletons (function / closure / catch / accessor / label /
hoisting shapes) x every assignment of their <= 4 name slots over an order-complete pool (spellings equal to, between and
around the names the generator emits first) x printer configurations, plus scopes of 230 and 500 declared names (generated
names reach `do`, `if`, `in`): the obfuscated output parses, differs from the plain output only in variable identifier
spellings, and ref/scopes_ref.py (independent ES5 scope resolution) finds the same binding partition; free names,
property names, labels and - unless requested - top-level names unchanged.
"""
import re, sys, itertools, time
import z3
from .. import boot, common, sx
from ..sx import SBool

sys.path.insert(0, common.VERIF)
from ref import scopes_ref

TEMPLATES = [
    'function {0}({1}) {{ var {2} = {1}; return {2} + {3}; }}',
    'function {0}({1}) {{ return function {2}({3}) {{ return {0} + {1} + {2} + {3}; }}; }}',
    'var {0} = function {1}({2}) {{ {1}({2}); {3}; }};',
    'function {0}() {{ try {{ {1}(); }} catch ({2}) {{ var {3} = {2}; }} return {3}; }}',
    'function {0}({1}) {{ {2} = {1}; function {3}() {{ return {2}; }} }}',
    'var {0} = {{ {1}: function({2}) {{ return {2}.{3} + {1}; }}, get {3}() {{ var {2}; return {2}; }} }};',
    '(function() {{ var {0} = 1, {1} = {0}; {2}({0}, {1}); function {2}() {{ return {3}; }} }})();',
    'function {0}() {{ var {1}; return function() {{ var {2}; return function() {{ return {1} + {2} + {3}; }}; }}; }}',
    '{0}: for (var {1} in {2}) {{ if ({1}) continue {0}; {3}({1}); }}',
    'function {0}({1}, {2}) {{ var {1}; {3}: while ({2}) {{ break {3}; }} }}',
    'var {0} = function() {{ return {1}; }}, {1} = function({0}) {{ return {0} + {2}; }}; {3}({0});',
    'function {0}() {{ {1}; try {{}} catch ({1}) {{ {2}; var q = function {3}() {{ {1}; }}; }} }}',
    'var {0} = {{ set {1}({2}) {{ {3} = {2}; }} }};',
    'function {0}() {{ var o = {{ get p() {{ var {1}; return {1}; }} }}; return [{1}, {2}, o, {3}]; }}',
    'function {0}({1}) {{ return function() {{ return {2}; }} }} function {3}() {{ return {0}({2}); }}',
    'function {0}() {{ function {1}() {{ {2}; }} var {3} = function {1}() {{ return {1}; }}; }}',
    'function {0}({1}) {{ try {{ {1}(); }} catch ({2}) {{ return function({3}, q) {{ return [{2}, {3}, q]; }}; }} }}',
    'function {0}() {{ try {{}} catch ({1}) {{ try {{ {3}; }} catch ({2}) {{ return [{1}, {2}, {3}]; }} }} }}',
]
K_CATCH_VAR = 'C07: a var inside a catch block that re-declares the catch parameter is renamed with the parameter, so the hoisted function-scope variable changes name'
K_FUNCEXPR_NAME = 'C07: the name of a named function expression is treated as declared in the enclosing scope, so a free reference of the same spelling there is renamed with it'
POOL_Q = ['a', 'b', 'c', 'x', 'aa']
POOL_T = ['a', 'b', 'c', 'd', 'x', 'aa', 'ab', 'B', 'A', '_', '$', 'zz']
CONFIGS = [dict(kind='minify', obfuscate_globals=False, shadow_funcname=False), dict(kind='minify', obfuscate_globals=True, shadow_funcname=False),
           dict(kind='minify', obfuscate_globals=False, shadow_funcname=True), dict(kind='indent', obfuscate_globals=True, shadow_funcname=True),
           dict(kind='dropsemi', obfuscate_globals=True, shadow_funcname=False), dict(kind='indent', obfuscate_globals=False, shadow_funcname=False)]


def printers(cfg):
    from calmjs.parse.unparsers import es5 as u
    from calmjs.parse import rules
    og, sf = cfg['obfuscate_globals'], cfg['shadow_funcname']
    if cfg['kind'] == 'minify':
        return u.minify_printer(obfuscate=True, obfuscate_globals=og, shadow_funcname=sf), u.minify_printer()
    if cfg['kind'] == 'dropsemi':
        return u.minify_printer(obfuscate=True, obfuscate_globals=og, shadow_funcname=sf, drop_semi=True), u.minify_printer(drop_semi=True)
    from calmjs.parse.lexers.es5 import Lexer
    return (u.Unparser(rules=(rules.obfuscate(obfuscate_globals=og, shadow_funcname=sf, reserved_keywords=Lexer.keywords_dict.keys()), rules.indent(indent_str='  '))),
            u.pretty_printer('  '))


def tokens_of(text):
    from calmjs.parse.lexers.es5 import Lexer
    from calmjs.parse.parsers.es5 import Parser
    # token stream as the parser drives it (division / regex decisions included)
    p = Parser()
    seen = []
    orig = p.lexer.token

    def spy():
        t = orig()
        if t is not None:
            seen.append((t.type, t.value))
        return t
    p.lexer.token = spy
    p.parse(text)
    return seen


def judge(text, cfg):
    from calmjs.parse.parsers.es5 import parse
    from calmjs.parse.lexers.es5 import Lexer
    tree = parse(text)
    pobf, pplain = printers(cfg)
    # the printer object is not fresh: an earlier, complete rendering of another program must not influence this one
    list(pobf(parse('function w(a) { var b = a; return b; }')))
    out = ''.join(f.text for f in pobf(tree))
    plain = ''.join(f.text for f in pplain(parse(text)))
    try:
        tree2 = parse(out)
    except Exception as e:
        return 'obfuscated output %r does not parse: %s' % (out[:120], str(e)[:80])
    r1, g1 = scopes_ref.resolve(parse(plain))
    r2, g2 = scopes_ref.resolve(tree2)
    if len(r1) != len(r2):
        return 'obfuscated output %r has %d variable occurrences, the plain output %d' % (out[:120], len(r2), len(r1))
    t1, t2 = tokens_of(plain), tokens_of(out)
    if [a for a, b in t1] != [a for a, b in t2]:
        return 'token kinds differ between plain %r and obfuscated %r output' % (plain[:80], out[:80])
    varpos1 = sorted((n for n in [x[0] for x in []]))
    # non-identifier tokens identical; identifier tokens that are not variable occurrences (property names, labels) identical
    ids1 = [b for a, b in t1 if a == 'ID']
    ids2 = [b for a, b in t2 if a == 'ID']
    for (a, b), (c, d) in zip(t1, t2):
        if a != 'ID' and b != d:
            return 'non-identifier token %r became %r' % (b, d)
    # binding partition
    c1, c2 = {}, {}
    for (i, n, b, s) in r1:
        c1.setdefault(b, []).append(i)
    for (i, n, b, s) in r2:
        c2.setdefault(b, []).append(i)
    if sorted(c1.values()) != sorted(c2.values()):
        return 'binding structure changed: %r -> %r (plain %r, obfuscated %r)' % (sorted(c1.values()), sorted(c2.values()), plain[:100], out[:100])
    for (i, n, b, s), (j, m, b2, s2) in zip(r1, r2):
        if b[0] == 'free':
            if m != n:
                return 'free name %r renamed to %r (%r)' % (n, m, out[:100])
        elif b[0] == g1.sid and not cfg['obfuscate_globals']:
            if m != n:
                return 'top-level name %r renamed to %r although obfuscate_globals is off (%r)' % (n, m, out[:100])
        if m in Lexer.keywords_dict:
            return 'generated name %r is a reserved word' % m
    # labels live in their own name space: the renaming must be consistent on them (same partition by spelling), not identical
    def labels(t):
        from calmjs.parse import asttypes as T
        from calmjs.parse.walkers import Walker
        out = []
        for n in Walker().walk(t):
            if isinstance(n, (T.Label, T.Break, T.Continue)) and n.identifier is not None:
                out.append(n.identifier.value)
        return out
    l1, l2 = labels(parse(plain)), labels(tree2)
    if len(l1) != len(l2) or [[i for i, y in enumerate(l1) if y == x] for x in l1] != [[i for i, y in enumerate(l2) if y == x] for x in l2]:
        return 'labels renamed inconsistently: %r -> %r' % (l1, l2)
    for x in l1:
        if x in ids1:
            ids1.remove(x)
    for x in l2:
        if x in ids2:
            ids2.remove(x)
    # identifiers that are not variables: same multiset of spellings outside variable occurrences
    nv1 = sorted(ids1)
    for (i, n, b, s) in r1:
        nv1.remove(n)
    nv2 = sorted(ids2)
    for (i, n, b, s) in r2:
        if n in nv2:
            nv2.remove(n)
        else:
            return 'identifier accounting failed for %r' % n
    if nv1 != nv2:
        return 'property names / labels changed: %r -> %r' % (nv1, nv2)
    return None


def _catch_var_redeclared(text):
    """a var (or function) declaration inside a catch block re-declares the catch parameter (identifier characters incl. $)"""
    for m in re.finditer(r'catch\s*\(\s*([\w$]+)\s*\)\s*\{', text):
        name = re.escape(m.group(1))
        if re.search(r'(?<![\w$])(?:var|function)\s+' + name + r'(?![\w$])', text[m.end():]):
            return True
    return False


def _funcexpr_name_clash(text):
    """does the program use the name of a named function expression also as a non-local (free or outer) name outside it?"""
    from calmjs.parse.parsers.es5 import parse
    r, g = scopes_ref.resolve(parse(text))
    fn = {n for (i, n, b, s) in r if s.kind == 'funcname' and b[1] == n and b[0] == s.sid}
    return any(n in fn and not (s.kind == 'funcname' or _inside(s, 'funcname', n)) for (i, n, b, s) in r)


def _inside(s, kind, name):
    while s is not None:
        if s.kind == kind and name in s.names:
            return True
        s = s.parent
    return False


def big_programs():
    out = []
    for n in (230, 500):
        names = ['v%d' % i for i in range(n)]
        out.append('function big(p) { var %s; try { p(%s); } catch (err) { return err + %s; } return function inner(q) { var w; return q + w + %s + freeName; }; }' % (
            ', '.join(names), ', '.join(names), '[' + ', '.join(names[:3]) + ']', '[' + ', '.join(names) + ']'))
        out.append('function big2() { var %s; return { get g() { var %s; return %s + outer; }, k: %s }; }' % (
            ', '.join(names), ', '.join(names[:10]), '[' + ', '.join(names[:10]) + ']', '[' + ', '.join(names) + ']'))
    return out


def _ejob(chunk):
    bad = []
    n = 0
    for text, ci in chunk:
        n += 1
        try:
            msg = judge(text, CONFIGS[ci])
        except Exception as e:
            msg = 'exception %s: %s' % (type(e).__name__, str(e)[:120])
        if msg:
            bad.append((text, ci, msg))
    return n, bad[:20]


def replay(d):
    w = d['input']
    try:
        msg = judge(w['text'], CONFIGS[w['config']])
    except Exception as e:
        msg = 'exception %s: %s' % (type(e).__name__, str(e)[:120])
    return bool(msg), 'program %r under %r: %s' % (w['text'][:200], CONFIGS[w['config']], msg or 'ok')


def h_namegen(NameGenerator, charset):
    def harness():
        E = sx.E
        n = E.pick(2) + 1
        skipped = sx.SZ3Str(z3.String('skipped'))
        alpha = z3.Union(*[z3.Re(z3.StringVal(c)) for c in charset])
        E.solver.add(z3.InRe(skipped.e, z3.Loop(alpha, 1, 2)))
        g = NameGenerator(skip=['do', 'if', 'in'], charset=charset)
        g.skip = sx.SymSet(['do', 'if', 'in', skipped])
        it = iter(g)
        for _ in range(12):
            sym = next(it)
            E.check(~(skipped == sym) if not isinstance(skipped == sym, bool) else (not (skipped == sym)), 'NameGenerator yields a symbol that is in its skip set')
            E.check(sym not in ('do', 'if', 'in'), 'NameGenerator yields a skipped keyword')
    return harness


def main():
    run = common.Run('C07', 'other')
    th = run.thorough()
    boot.load_plain()
    boot.warm_tabs()
    pool = POOL_T if th else POOL_Q
    cfgs = list(range(len(CONFIGS))) if th else [0, 1, 3, 4]
    jobs = []
    for tpl in TEMPLATES:
        nslots = len(set(re.findall(r'\{(\d)\}', tpl)))
        for names in itertools.product(pool, repeat=nslots):
            text = tpl.format(*names)
            for ci in cfgs:
                jobs.append((text, ci))
    for text in big_programs():
        for ci in range(len(CONFIGS)):
            jobs.append((text, ci))
    if th and len(jobs) > 600000:
        jobs = jobs[::2]
    chunks = [jobs[i::256] for i in range(256)]
    res = common.pmap(_ejob, chunks)
    ncase = sum(r[0] for r in res)
    from .. import replay as rp
    pending = {}
    for n, bad in res:
        for text, ci, msg in bad:
            key = 'C07: ' + re.sub(r"%r|'(?:[^'\\]|\\.)*'|\"(?:[^\"\\]|\\.)*\"|\[\[.*\]\]|\d+", '..', msg)[:90]
            if 'binding structure changed' in msg and _catch_var_redeclared(text):
                key = K_CATCH_VAR
            elif ('free name' in msg or 'binding structure changed' in msg) and _funcexpr_name_clash(text):
                key = K_FUNCEXPR_NAME
            pending.setdefault(key, (text, ci, msg))
    for key, (text, ci, msg) in list(pending.items())[:20]:
        rpd = {'property': 'C07', 'input': {'text': text, 'config': ci}}
        ok, detail = rp.run_in_subprocess(rpd)
        if ok:
            run.violation(key, detail[:500], rpd)
        else:
            run.inconclusive_('failure did not reproduce: %s' % msg[:200])
    # keyword list handed to the obfuscator
    from calmjs.parse.unparsers import es5 as u
    from calmjs.parse.lexers.es5 import Lexer
    # ---- leg N (SX)
    src = boot.scratch_dir()
    sx.install(src)
    from calmjs.parse.handlers import obfuscation as ob
    E = sx.new_engine(max_decisions=3000)
    E.explore(h_namegen(ob.NameGenerator, 'abdfino'))
    st = E.stats()
    if st['unsupported'] or st['errors'] or st['bound_hits']:
        run.inconclusive_('NameGenerator harness: %r' % ((E.unsupported + E.errors)[:2],))
    for msg, w in E.violations[:1]:
        run.inconclusive_('NameGenerator: %s (%r)' % (msg, w))
    run.leg('N_name_generator', **st)
    run.coverage.update({
        'explanation': 'E: %d (program, configuration) cases = %d scope skeletons x all assignments of their name slots over the pool %r x %d configurations + scopes of 230/500 names; '
                       'judged by an independent ES5 scope resolver (binding partition), token-level comparison with the plain output and re-parse. '
                       'N: NameGenerator under SX with a symbolic skipped symbol.' % (ncase, len(TEMPLATES), pool, len(cfgs)),
        'evaluations': ncase + st['paths'], 'distinct_nontrivial': ncase, 'exhaustive': True,
        'rule': 'E: one per (skeleton, name assignment, configuration), exhaustive over the pool; N: one per SX path',
        'samples': [{'example': TEMPLATES[3].format('a', 'b', 'a', 'x')}, {'N': st}],
        'queries': st['z3_checks'], 'solver_s': st['solver_s'],
        'bounds': {'skeletons': len(TEMPLATES), 'pool': pool, 'outside': 'other scope shapes; more than 4 distinct source names per skeleton; with / eval'},
    })
    run.assumptions += ['ref/scopes_ref.py is the reading of ES5 scoping (function scope, hoisting, named function expression scope, catch parameter)',
                        'the pool is order- and equality-complete relative to the first generated names a..d for <= 4 source names; the real obfuscator inspects names only through ==, < and hashing']
    return run.finish()
