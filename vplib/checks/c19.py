"""C19 - literal data bound in a program is extracted as the equal Python value.

The *evaluation* of a literal spelling happens inside ast.literal_eval (CPython C code): it cannot be executed
symbolically with anything present, so that half is judged by enumeration (leg D) and says so.
Leg S (SX, structural half): the real extractor definitions (LiteralEval, GroupAsMap, GroupAsList, AttrListAssignment,
GroupAsUnaryExprMinus, VarDecl/Assign handling) run on JSON shapes (depth <= 2/3, width <= 2) bound by var / assignment /
inside a function, with every string and number leaf SPELLING a z3 string and literal_eval replaced by an uninterpreted
marker LE(spelling): the dictionary built under the bound name is exactly the shape with LE(leaf) at the leaves,
-LE(n) for negated numbers, True/False/None for the literals, and nothing else for that statement - for all spellings.
Leg D (differential enumeration vs json.loads, replay level): JSON values with boundary spellings (escapes, exponents,
fractions, negative zero, unicode) in every shape and binding context; fold_ops off and on.
"""
import sys, json, itertools, re
import z3
from .. import boot, common, sx
from ..sx import SZ3Str

STR_SPELLINGS = ['""', '"a"', '"a b"', '"\\n"', '"\\t\\r\\b\\f"', '"\\\\"', '"C:\\\\apps"', '"\\\\N"', '"\\\\U"', '"\\""', '"\'"', '"\\u00e9"', '"\\u0041"', '"\xe9"', '"\\\\\\\\"',
                 '"a\\\\tb"', '"\\\\x41"', '"a\\/b"', '"\\ud83d\\ude00"', '"\\u2028"', '"\\u0000"', '"{0}"', '"%s"', '"null"', '"1"']
NUM_SPELLINGS = ['0', '1', '-1', '10', '1.5', '-0.5', '0.0', '1e3', '1E3', '1e+3', '1e-3', '0e0', '0E5', '-0e-3', '0.0e1', '123456789012345678901234567890', '1.0e10', '-0', '2.5e-7', '0.1']
K_SOLIDUS = 'C19: the JSON escape \\/ in a string is not evaluated to /'
K_SURROGATE = 'C19: a JSON surrogate pair is extracted as two lone surrogates'


def shapes(depth, width):
    """abstract JSON shapes: 's' string leaf, 'n' number leaf, 'm' negated number, 't','f','z' literals, ('A', ...) array, ('O', ...) object"""
    leaves = ['s', 'n', 'm', 't', 'f', 'z']
    if depth == 0:
        return leaves
    sub = shapes(depth - 1, width)
    out = list(leaves)
    for w in range(0, width + 1):
        for items in itertools.product(sub if depth == 1 else sub[:12], repeat=w):
            out.append(('A',) + items)
            out.append(('O',) + items)
    return out


def render(shape, leafsrc):
    """JS text of a shape; leafsrc(kind) yields spellings"""
    if shape == 's':
        return leafsrc('s')
    if shape == 'n':
        return leafsrc('n')
    if shape == 'm':
        return '-' + leafsrc('n')
    if shape in ('t', 'f', 'z'):
        return {'t': 'true', 'f': 'false', 'z': 'null'}[shape]
    if shape[0] == 'A':
        return '[' + ', '.join(render(x, leafsrc) for x in shape[1:]) + ']'
    return '{' + ', '.join('"k%d": %s' % (i, render(x, leafsrc)) for i, x in enumerate(shape[1:])) + '}'


CONTEXTS = ['var X = %s;', 'X = %s;', 'function f() { var X = %s; }', 'var Y = 1, X = %s;']


class LE:
    """uninterpreted literal_eval(spelling)"""
    def __init__(self, term):
        self.term = term

    def __eq__(self, o):
        return isinstance(o, LE) and self.term.eq(o.term)

    def __hash__(self):
        return hash(self.term.get_id())

    def __neg__(self):
        return ('neg', self)

    def __repr__(self):
        return 'LE(%s)' % self.term


def h_struct(ext, shape, ctx, fold):
    def harness():
        from calmjs.parse.parsers.es5 import parse
        from calmjs.parse.walkers import Walker
        E = sx.E
        cnt = [0]

        def leafsrc(kind):
            cnt[0] += 1
            return '"L%d"' % cnt[0] if kind == 's' else '7%d' % cnt[0]
        text = ctx % render(shape, leafsrc)
        tree = parse(text)
        # symbolic spellings: every string / number leaf of the bound value (object keys stay concrete)
        vars_ = {}
        for n in Walker().walk(tree):
            t = type(n).__name__
            if t == 'String' and n.value.startswith('"L'):
                v = z3.String('s_' + n.value.strip('"'))
                vars_[n.value] = v
                n.value = SZ3Str(v)
            elif t == 'Number' and n.value.startswith('7') and n.value != '1':
                v = z3.String('n_' + n.value)
                vars_[n.value] = v
                n.value = SZ3Str(v)
        real = ext.literal_eval

        def stub(x):
            if isinstance(x, SZ3Str):
                return LE(x.e)
            return real(x)
        ext.literal_eval = stub
        try:
            got = ext.ast_to_dict(tree, fold_ops=fold)
        finally:
            ext.literal_eval = real
        cnt[0] = 0

        def expect(sh):
            if sh == 's':
                cnt[0] += 1
                return LE(vars_['"L%d"' % cnt[0]])
            if sh == 'n':
                cnt[0] += 1
                return LE(vars_['7%d' % cnt[0]])
            if sh == 'm':
                cnt[0] += 1
                return ('neg', LE(vars_['7%d' % cnt[0]]))
            if sh in ('t', 'f', 'z'):
                return {'t': True, 'f': False, 'z': None}[sh]
            if sh[0] == 'A':
                return [expect(x) for x in sh[1:]]
            return {('k%d' % i): expect(x) for i, x in enumerate(sh[1:])}
        exp = expect(shape)
        d = got
        if ctx.startswith('function'):
            inner = [v for k, v in d.items() if isinstance(v, dict) and 'X' in v] if isinstance(d, dict) else []
            if not inner and isinstance(d.get('f'), list):
                inner = [x for x in d['f'] if isinstance(x, dict) and 'X' in x]
            val = inner[0]['X'] if inner else _find(d, 'X')
        else:
            val = d.get('X', NotImplemented) if isinstance(d, dict) else NotImplemented
        E.check(_same(val, exp), 'value extracted under the bound name is not the literal structure with literal_eval applied to each leaf spelling: got %r expected %r' % (val, exp))
        if not ctx.startswith('function') and isinstance(d, dict):
            extra = {k: v for k, v in d.items() if k not in ('X', 'Y')}
            E.check(not extra, 'something else was added for the statement: %r' % (extra,))
    return harness


def _find(d, key):
    if isinstance(d, dict):
        if key in d:
            return d[key]
        for v in d.values():
            r = _find(v, key)
            if r is not NotImplemented:
                return r
    if isinstance(d, list):
        for v in d:
            r = _find(v, key)
            if r is not NotImplemented:
                return r
    return NotImplemented


def _same(a, b):
    if isinstance(b, tuple) and b and b[0] == 'neg':
        return (isinstance(a, tuple) and a == b)
    if isinstance(b, list):
        return isinstance(a, list) and len(a) == len(b) and all(_same(x, y) for x, y in zip(a, b))
    if isinstance(b, dict):
        return isinstance(a, dict) and set(a) == set(b) and all(_same(a[k], b[k]) for k in b)
    if b is True or b is False or b is None:
        return a is b
    return a == b


# ------------------------------------------------------------------------------------------ leg D
def judge(jtext, ctx, fold):
    from calmjs.parse.parsers.es5 import parse
    from calmjs.parse.unparsers.extractor import ast_to_dict
    import warnings
    exp = json.loads(jtext)
    with warnings.catch_warnings():
        warnings.simplefilter('ignore')
        try:
            d = ast_to_dict(parse(ctx % jtext), fold_ops=fold)
        except Exception as e:
            return 'ast_to_dict raises %s: %s' % (type(e).__name__, str(e)[:80])
    val = _find(d, 'X')
    if val is NotImplemented:
        return 'nothing extracted under the bound name'
    if not _jeq(val, exp):
        return 'extracted %r, a JSON parser gives %r' % (val, exp)
    return None


def _jeq(a, b):
    if isinstance(b, bool) or b is None:
        return a is b
    if isinstance(b, (int, float)):
        return isinstance(a, (int, float)) and not isinstance(a, bool) and a == b and (str(a).startswith('-') == str(b).startswith('-') or a != 0)
    if isinstance(b, str):
        return isinstance(a, str) and a == b
    if isinstance(b, list):
        return isinstance(a, list) and len(a) == len(b) and all(_jeq(x, y) for x, y in zip(a, b))
    if isinstance(b, dict):
        return isinstance(a, dict) and set(a) == set(b) and all(_jeq(a[k], b[k]) for k in b)
    return False


def _djob(chunk):
    bad = []
    n = 0
    for jtext, ci, fold in chunk:
        n += 1
        msg = judge(jtext, CONTEXTS[ci], fold)
        if msg:
            bad.append((jtext, ci, fold, msg))
    return n, bad[:20]


TARGETS = ['a[0]', 'a[1]', 'm[1][0]', 'o.list[0]', 'a.b', 'a.b.c', 'a[10]', 'a[0][0]']


def judge_target(t):
    """an assignment to an element / member target is filed under the spelling of that target, and nothing else"""
    from calmjs.parse.parsers.es5 import parse
    from calmjs.parse.unparsers.extractor import ast_to_dict
    d = ast_to_dict(parse('%s = [1, "x"];' % t))
    if d != {t: [1, 'x']}:
        return 'assignment `%s = [1, "x"];` is extracted as %r, expected %r' % (t, d, {t: [1, 'x']})
    return None


def replay(d):
    w = d['input']
    if 'target' in w:
        msg = judge_target(w['target'])
        return bool(msg), msg or 'ok'
    msg = judge(w['json'], CONTEXTS[w['context']], w['fold_ops'])
    return bool(msg), 'JSON %r bound by %r (fold_ops=%r): %s' % (w['json'], CONTEXTS[w['context']], w['fold_ops'], msg or 'ok')


_TL = {}


def _sjob(args):
    shape, ci, fold = args
    E = sx.new_engine(max_decisions=500)
    E.explore(h_struct(_TL['ext'], shape, CONTEXTS[ci], fold))
    return args, E.stats(), E.violations[:2], (E.unsupported + E.errors)[:2]


def main():
    run = common.Run('C19', 'other')
    th = run.thorough()
    boot.load_plain()
    boot.warm_tabs()
    # ---- leg D
    jtexts = list(STR_SPELLINGS) + list(NUM_SPELLINGS) + ['true', 'false', 'null']
    for s in STR_SPELLINGS[: (None if th else 12)]:
        for n in NUM_SPELLINGS[: (None if th else 10)]:
            jtexts += ['[%s, %s]' % (s, n), '{"a": %s, "b": [%s, {"c": %s}]}' % (n, s, n), '{%s: %s}' % (s, n) if s != '""' or True else '']
    jtexts += ['[]', '{}', '[[], {}]', '{"a": {"b": {"c": [1, [2, [3]]]}}}', '[-1.5e3, -0, 0.5, true, null, "x"]']
    # repeated keys (the later one wins, also when its value is null / false / 0 / empty) and falsy values at every position
    jtexts += ['{"k": 1, "k": null}', '{"k": null, "k": 1}', '{"k": [1], "k": false}', '{"k": "x", "k": 0}', '{"k": {"a": 1}, "k": {}}', '{"a": {"k": 1, "k": null}}',
               '[{"k": 1, "k": null}]', '{"k": 1, "k": ""}', '[null, 0, "", false, [], {}]', '{"a": null, "b": 0, "c": "", "d": false, "e": [], "f": {}}',
               '[-0.5, -1e3, -2.5e-3, -0.0, -1]', '{"n": -0.5}']
    jtexts = list(dict.fromkeys(jtexts))
    djobs = [(j, ci, fold) for j in jtexts for ci in range(len(CONTEXTS)) for fold in (False, True)]
    dres = common.pmap(_djob, [djobs[i::64] for i in range(64)])
    nd = sum(r[0] for r in dres)
    from .. import replay as rp
    pending = {}
    for n, bad in dres:
        for jtext, ci, fold, msg in bad:
            if '\\/' in jtext:
                key = K_SOLIDUS
            elif re.search(r'\\ud[89ab]', jtext, re.I):
                key = K_SURROGATE
            else:
                key = 'C19 D: %s | %s' % (re.sub(r"%r|'(?:[^'\\]|\\.)*'|\"(?:[^\"\\]|\\.)*\"|\d+", '..', msg)[:70], jtext[:40])
            pending.setdefault(key, (jtext, ci, fold, msg))
    for t in TARGETS:
        msg = judge_target(t)
        if msg:
            rpd = {'property': 'C19', 'input': {'target': t}}
            ok, detail = rp.run_in_subprocess(rpd)
            if ok:
                run.violation('C19 D: an assignment to an element or member target is not filed under the spelling of the target', detail[:400], rpd)
                break
            run.inconclusive_('target name difference did not reproduce: %s' % t)
    run.leg('D_assignment_targets', targets=len(TARGETS))
    for key, (jtext, ci, fold, msg) in list(pending.items())[:25]:
        rpd = {'property': 'C19', 'input': {'json': jtext, 'context': ci, 'fold_ops': fold}}
        ok, detail = rp.run_in_subprocess(rpd)
        if ok:
            run.violation(key, detail[:400], rpd)
        else:
            run.inconclusive_('failure did not reproduce: %s' % msg[:200])
    for f in run.known:
        probe = {K_SOLIDUS: '"a\\/b"', K_SURROGATE: '"\\ud83d\\ude00"'}.get(f['key'])
        if probe:
            ok, detail = rp.run_in_subprocess({'property': 'C19', 'input': {'json': probe, 'context': 0, 'fold_ops': False}})
            if ok:
                run.known_hit[f['key']] = f['what']
    # ---- leg S
    src = boot.scratch_dir()
    sx.install(src)
    from calmjs.parse.unparsers import extractor as ext
    _TL['ext'] = ext
    shs = shapes(2 if th else 1, 2)
    if th:
        shs = shs[:600]
    sjobs = [(sh, ci, fold) for sh in shs for ci in range(len(CONTEXTS)) for fold in (False, True)]
    sres = common.pmap(_sjob, sjobs, chunksize=8)
    tot = dict(paths=0, reached=0, z3_checks=0, assertions=0, solver_s=0.0)
    samples = []
    for args, st, viols, errs in sres:
        for k in tot:
            tot[k] += st[k]
        if st['unsupported'] or st['errors'] or st['bound_hits']:
            run.inconclusive_('structural harness %r: %r' % (args, errs))
        if st['reached'] == 0:
            run.inconclusive_('structural harness %r vacuous' % (args,))
        if len(samples) < 3 and not isinstance(args[0], str):
            samples.append({'shape': repr(args[0]), 'context': CONTEXTS[args[1]], 'fold_ops': args[2], 'stats': st})
        for msg, w in viols[:1]:
            run.inconclusive_('structural obligation fails: %s' % msg[:300])
    run.coverage.update({
        'explanation': 'S: real extractor under SX on %d (shape, context, fold_ops) cases with symbolic leaf spellings and literal_eval as an uninterpreted marker; '
                       'D: %d differential cases against json.loads (boundary spellings x shapes x binding contexts x fold_ops).' % (len(sjobs), nd),
        'evaluations': tot['paths'] + nd, 'distinct_nontrivial': tot['reached'] + nd,
        'rule': 'S: one per SX path of a shape; D: one per (JSON text, context, fold_ops)', 'samples': samples + [{'D_example': jtexts[40] if len(jtexts) > 40 else jtexts[-1]}],
        'queries': tot['z3_checks'], 'solver_s': round(tot['solver_s'], 1), 'assertions_discharged': tot['assertions'],
        'bounds': {'S': 'shapes of depth <= %d, width <= 2' % (2 if th else 1), 'D': '%d JSON texts' % len(jtexts),
                   'outside': 'the evaluation of a literal spelling itself is CPython C code (ast.literal_eval): enumerated, not symbolically decided'},
    })
    run.assumptions += ['literal_eval is treated as an uninterpreted function of the spelling in leg S']
    return run.finish()
