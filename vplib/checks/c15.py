"""C15 - parsing is a pure function of (text, comment flag): no history effects, no thread effects.

The property quantifies over call histories and thread schedules.  Neither is enumerated.  What is decided is the
FRAME CONDITION that makes both irrelevant: a parse writes to nothing that outlives it.  Everything a parse works on
(Parser, Lexer, ply LRParser/Lexer clones, token objects, nodes) is allocated inside parse(); if, on every path, the
state reachable from module and class level of calmjs.parse and ply (vplib/frame.py) is bit-identical before, during
and after the run, then a later or concurrent parse - which shares only that state - cannot observe it.

Leg F (deciding, SX): the real Lexer wrapper (token, _token, _get_update_token, _set_tokens, _read_regex path,
        auto_semi, get_lexer_token, _update_newline_idx, hidden-token bookkeeping) runs on a raw-token source whose
        kinds are symbolic, comment capture off and on; after EVERY token step and at the end of EVERY path the shared
        state snapshot must equal the one taken before (each path = a class of kind sequences chosen by z3).
Leg A (deciding, SX): every real p_* action on symbolic positions and every child-shape combination: same frame check.
Leg W (replay level, plain package): table-derived programs, rejected programs and the path witnesses of leg F
        through the real parse(), both flags: snapshot before / at every token / after.
Leg H (replay level): parse(B) after parse(A) (all ordered pairs, both flags, incl. failing A) equals parse(B) in a
        fresh interpreter; leg T: the same B parsed in 8 threads against concurrent parses of other texts with a
        1 microsecond switch interval equals the sequential result (a sample of schedules, not a decision: the
        thread half rests on the frame condition plus the assumptions listed).
A frame violation alone is not reported as a violation of the property (a write nobody reads is harmless): the check
looks for an observable consequence (history or thread difference) with the offending text as the first parse and
reports that; a write with no observable consequence found is reported as inconclusive (exit 2).
"""
import json, os, re, subprocess, sys, threading, time
import z3
from .. import boot, common, sx, actions, gx, prodsx, rawsx, frame
from . import lexsx

PREFIXES = ('calmjs.parse', 'ply')
# ply's backward-compatibility globals: rebound by ply at every lexer/parser construction (lex.lex: lexer/token/input,
# yacc.yacc: parse) and by call_errorfunc around the error hook (left behind when the hook raises).  Nothing reads them:
# checked statically on the calmjs.parse sources by allowed_unread().
ALLOW = ('ply.lex.lexer', 'ply.lex.token', 'ply.lex.input', 'ply.yacc.parse', 'ply.yacc._errok', 'ply.yacc._token', 'ply.yacc._restart')
_TL = {}

H_TEXTS = ['x = a', 'f()', '{}', 'a.', '/re/.test(x)', '/a/g', 'if (x) y', 'with (o) p', 'a\nb\nc', '@', 'x = 1 /', 'return', '(', 'a ++', "'s' +",
           'var get = 1', 'x = {get a(){}}', 'a = b\n/c/g', 'function f(){}', 'do ; while (a)', '/* c */ a // d\n', 'a /* x\ny */ b', '// only',
           "x = 'a\\\nb'", 'if (a) /re/', 'a = {', 'x = /[/', 'return\nx', 'f((a', 'a)', 'if ((a', ')', 'a]', '}']


def allowed_unread():
    """the allow-listed ply globals are not read anywhere in calmjs.parse (static scan of the scratch copy)"""
    pat = re.compile(r'\b(?:lex|yacc)\s*\.\s*(?:lexer|token|input|parse|_errok|_token|_restart)\b')
    hits = []
    root = os.path.join(boot.scratch_dir(), 'calmjs', 'parse')
    for dp, dn, fn in os.walk(root):
        if 'tests' in dp.split(os.sep):
            continue
        for f in fn:
            if f.endswith('.py') and 'tab_' not in f:
                for i, line in enumerate(open(os.path.join(dp, f), encoding='utf8'), 1):
                    if pat.search(line.split('#')[0]):
                        hits.append('%s:%d' % (f, i))
    return hits


def verdict(text, wc):
    from calmjs.parse.parsers.es5 import parse
    from calmjs.parse.walkers import ReprWalker
    try:
        t = parse(text, with_comments=wc)
    except Exception as e:
        return '%s: %s' % (type(e).__name__, e)
    out = [ReprWalker().walk(t, pos=True)]
    if wc:
        from calmjs.parse.asttypes import Node
        for n in _walk(t, Node):
            c = getattr(n, 'comments', None)
            if c:
                out.append('%s@%s:%s' % (type(n).__name__, n.lexpos, [(x.value, x.lexpos) for x in c]))
    return '\n'.join(out)


def _walk(n, Node):
    yield n
    for c in n:
        if isinstance(c, Node):
            for x in _walk(c, Node):
                yield x


def fresh_verdicts(items):
    """verdicts of (text, flag) items, each as the first parse of a fresh interpreter"""
    code = ("import sys, json\nsys.path.insert(0, %r)\nfrom vplib import boot\nboot.load_plain()\nfrom vplib.checks import c15\n"
            "t, wc = json.loads(sys.argv[1])\nprint(json.dumps(c15.verdict(t, wc)))\n") % common.VERIF
    env = dict(os.environ, CALMJS_VERIF_SCRATCH=boot.scratch_dir())

    def one(it):
        r = subprocess.run([sys.executable, '-c', code, json.dumps(it)], capture_output=True, text=True, env=env, cwd=common.VERIF)
        if r.returncode != 0:
            raise common.HarnessError('fresh-interpreter probe failed: %s' % r.stderr[-300:])
        return json.loads(r.stdout.strip().splitlines()[-1])
    from concurrent.futures import ThreadPoolExecutor
    with ThreadPoolExecutor(16) as ex:
        return dict(zip([tuple(i) for i in items], ex.map(one, items)))


def threaded(items, b, reps=6, nthreads=8):
    """verdicts of item b obtained in threads that run against concurrent parses of the other items"""
    got = []
    lock = threading.Lock()
    old = sys.getswitchinterval()
    sys.setswitchinterval(1e-6)
    try:
        def work(k):
            for r in range(reps):
                if k % 2 == 0:
                    v = verdict(*b)
                    with lock:
                        got.append(v)
                else:
                    verdict(*items[(k + r) % len(items)])
        ts = [threading.Thread(target=work, args=(k,)) for k in range(nthreads)]
        for t in ts:
            t.start()
        for t in ts:
            t.join()
    finally:
        sys.setswitchinterval(old)
    return got


def replay(d):
    w = d['input']
    b = tuple(w['second'])
    if w['claim'] == 'history':
        firsts = [tuple(x) for x in (w.get('firsts') or [w['first']])]
        for a in firsts:
            verdict(*a)
        got = verdict(*b)
        a = firsts[-1]
        return got != w['alone'], 'parse(%r, with_comments=%r) after %s gives %s; as the first parse of a process it gives %s' % (
            b[0], b[1], ('parse(%r, with_comments=%r)' % a) if len(firsts) == 1 else ('%d earlier parses ending with parse(%r, with_comments=%r)' % (len(firsts), a[0], a[1])),
            got[:200], w['alone'][:200])
    a = tuple(w['first'])
    if w['claim'] == 'threads':
        for attempt in range(5):
            got = threaded([a, b], b, reps=10)
            bad = [g for g in got if g != w['alone']]
            if bad:
                return True, 'parse(%r, with_comments=%r) run in threads concurrently with parse(%r) gave %s (attempt %d); alone it gives %s' % (
                    b[0], b[1], a[0], bad[0][:200], attempt + 1, w['alone'][:200])
        return False, 'threaded runs agreed with the sequential result in 5 attempts'
    raise common.HarnessError('unknown claim')


# ------------------------------------------------------------------------------------------ leg F / A under SX
def _snap():
    return frame.snapshot(PREFIXES, ALLOW)


def h_frame_lex(LexerCls, dom, n, wc, part=(0, 1)):
    from calmjs.parse.lexers.tokens import AutoLexToken
    from calmjs.parse.exceptions import ECMASyntaxError

    def harness():
        E = sx.E
        before = _TL['before']
        L, src, kinds = rawsx.make_lexer(LexerCls, dom, n, with_comments=wc)
        if part[1] > 1:
            # the space of kind sequences is split by the first kind (residue classes) over parallel jobs
            E.solver.add(kinds[0].e % part[1] == part[0])
        count = 0
        try:
            while True:
                tok = L.token()
                count += 1
                d = frame.diff(before, _snap())
                E.check(not d, 'shared state written while lexing (token step %d, with_comments=%r): %s' % (count, wc, d[:4]))
                if tok is None:
                    break
                if count > 3 * n + 3:
                    raise sx.SXBound()
                if not isinstance(tok, AutoLexToken):
                    # what the parser's error hook does when the token is not viable
                    saved = list(L.next_tokens)
                    L.auto_semi(tok)
                    L.next_tokens = saved
        except ECMASyntaxError:
            pass
        d = frame.diff(before, _snap())
        E.check(not d, 'shared state written by a lexer run (with_comments=%r): %s' % (wc, d[:4]))
    return harness


def _fjob(args):
    n, wc, part = args
    if 'before' not in _TL:
        _TL['before'] = _snap()
    E, st = lexsx.run(h_frame_lex(_TL['Lexer'], _TL['dom'], n, wc, part), max_decisions=8000)
    return ('lex', n, wc, part), st, E.violations[:3], (E.unsupported + E.errors)[:2]


def _ajob(args):
    pnum, ci = args
    if 'before' not in _TL:
        _TL['before'] = _snap()
    sp, LexerCls, Node, first, nullable = _TL['ctx']
    pr = _TL['prods'][pnum]
    combo = _TL['combos'][pnum][ci]

    def harness():
        E = sx.E
        try:
            prodsx.build(pr, combo, sp, LexerCls, Node, first, nullable)
        except Exception as e:
            if type(e).__name__ not in ('ProductionError', 'ECMASyntaxError'):
                raise
        d = frame.diff(_TL['before'], _snap())
        E.check(not d, 'shared state written by the action of %s: %s' % (pr, d[:4]))
    E = sx.new_engine(max_decisions=300)
    E.explore(harness)
    return ('act', pnum, ci), E.stats(), E.violations[:2], (E.unsupported + E.errors)[:2]


# ------------------------------------------------------------------------------------------ leg W
def _wjob(chunk):
    from calmjs.parse.parsers.es5 import parse, Parser
    before = _snap()
    bad = []
    n = steps = 0
    for idx, (text, wc, mid) in enumerate(chunk):
        n += 1
        try:
            parse(text, with_comments=wc)
        except Exception:
            pass
        d = frame.diff(before, _snap())
        if d:
            bad.append((text, wc, 'after parse()', d[:4]))
            before = _snap()
            continue
        if mid:
            p = Parser(with_comments=wc)
            inner = p.lexer.token
            seen = []

            def token(inner=inner, seen=seen):
                t = inner()
                dd = frame.diff(before, _snap())
                if dd and not seen:
                    seen.append(dd)
                return t
            p.lexer.token = token
            try:
                p.parse(text)
            except Exception:
                pass
            steps += 1
            if seen:
                bad.append((text, wc, 'during the parse (between two tokens)', seen[0][:4]))
    return n, steps, bad


def main():
    run = common.Run('C15', 'other')
    th = run.thorough()
    from .. import replay as rp
    boot.load_plain()
    boot.warm_tabs()
    reads = allowed_unread()
    if reads:
        run.inconclusive_('allow-listed ply globals are referenced in calmjs.parse: %r' % reads[:5])
    pplain = boot.fresh_parser()
    Tb, G = gx.extract(pplain)
    spw = actions.spellings(type(pplain.lexer))
    words = [w for w in gx.enumerate_accepted(Tb, G, 4 if th else 3) if w and 'AUTOSEMI' not in w]
    texts = [' '.join(spw[t] for t in w) for w in words]
    # rejected programs: every proper prefix and every single-token deletion of a sample
    rej = []
    for w in words[::7]:
        for k in range(1, len(w)):
            rej.append(' '.join(spw[t] for t in w[:k]))
    rej = list(dict.fromkeys(rej))[:400 if not th else 4000]
    corpus = list(dict.fromkeys(texts + rej + H_TEXTS))
    verdict('a', False)
    verdict('// c\na', True)
    # ---- leg H: histories of two parses, all ordered pairs, both flags
    items = [(t, wc) for t in H_TEXTS for wc in (False, True)]
    alone = fresh_verdicts([list(i) for i in items])
    hbad = []
    log = []
    for a in items:
        for b in items:
            verdict(*a)
            log.append(a)
            if verdict(*b) != alone[b]:
                hbad.append((a, b, list(log)))
            log.append(b)
    from concurrent.futures import ThreadPoolExecutor
    done_b = set()
    for a, b, lg in hbad:
        if b in done_b or len(done_b) >= 3:
            continue
        done_b.add(b)
        # the state may stem from any earlier parse of the loop: look for a self-contained history (the pair itself, any
        # single earlier item, finally the whole call log), each replayed in a fresh interpreter
        cands = [[a]] + [[c] for c in dict.fromkeys(lg) if c != a] + [lg]
        rpds = [{'property': 'C15', 'input': {'claim': 'history', 'firsts': [list(x) for x in c], 'second': list(b), 'alone': alone[b]}} for c in cands]
        with ThreadPoolExecutor(12) as ex:
            outs = list(ex.map(rp.run_in_subprocess, rpds))
        hit = [(r, o) for r, o in zip(rpds, outs) if o[0]]
        if hit:
            rpd, (ok, detail) = min(hit, key=lambda h: len(h[0]['input']['firsts']))
            run.violation('C15 H: the result of parse() depends on what was parsed before in the same process', detail[:500], rpd)
        else:
            run.inconclusive_('history dependence did not reproduce: %r after %d earlier parses' % (b, len(lg)))
    run.leg('H_histories_of_two', items=len(items), ordered_pairs=len(items) ** 2, differing=len(hbad))
    # ---- leg T: threads (sample of schedules)
    tbad = []
    for b in items[::3]:
        got = threaded(items, b, reps=4 if not th else 20)
        if any(g != alone[b] for g in got):
            tbad.append(b)
    for b in tbad[:2]:
        a = items[0] if items[0] != b else items[1]
        rpd = {'property': 'C15', 'input': {'claim': 'threads', 'first': list(a), 'second': list(b), 'alone': alone[b]}}
        ok, detail = rp.run_in_subprocess(rpd)
        if ok:
            run.violation('C15 T: the result of parse() depends on parses running concurrently in other threads', detail[:500], rpd)
        else:
            run.inconclusive_('thread dependence did not reproduce for %r' % (b,))
    run.leg('T_threads_sampled', items=len(items[::3]), threads=8, switch_interval='1e-6 s', differing=len(tbad))
    # ---- leg W: frame condition through the real parse(), before / at every token / after
    wl = []
    for i, t in enumerate(corpus):
        for wc in (False, True):
            wl.append((t, wc, th or i % 4 == 0 or t in H_TEXTS))
    wres = common.pmap(_wjob, [wl[i::32] for i in range(32)])
    wn = sum(r[0] for r in wres)
    wsteps = sum(r[1] for r in wres)
    wbad = [b for r in wres for b in r[2]]
    run.leg('W_frame_whole_pipeline', parses=wn, with_snapshots_at_every_token=wsteps, frame_violations=len(wbad))
    suspects = [(t, wc, where, d) for t, wc, where, d in wbad]
    # ---- legs F and A under SX (instrumented package)
    src = boot.scratch_dir()
    sx.install(src)
    boot.warm_tabs()
    p = boot.fresh_parser()
    from calmjs.parse.asttypes import Node
    from calmjs.parse.lexers.es5 import Lexer
    from . import c16 as c16mod
    dom = rawsx.RawDomain(Lexer)
    Tb2, G2 = gx.extract(p)
    first, nullable = G2.first_sets()
    sh, sp, rec = c16mod.shapes(p)
    prods = p.parser.productions
    combos = {}
    ajobs = []
    for pnum, pr in enumerate(prods):
        if pnum == 0:
            continue
        combos[pnum] = prodsx.shape_combos(pr, sh, rec, sp, cap=24 if th else 6)
        ajobs += [(pnum, ci) for ci in range(len(combos[pnum]))]
    _TL.update(Lexer=Lexer, dom=dom, ctx=(sp, Lexer, Node, first, nullable), prods=prods, combos=combos)
    # one warm run of each harness kind so that lazily created state exists before the reference snapshot is taken
    _TL['before'] = {}
    lexsx.run(h_frame_lex(Lexer, dom, 1, True), max_decisions=50)
    _TL.pop('before')
    _ajob(ajobs[0])
    _TL['before'] = _snap()
    fjobs = [(n, wc, (r, P)) for n in range(1, (4 if th else 3) + 1) for wc in (False, True) for P in [1 if n < 3 else 8 if n == 3 else 48] for r in range(P)]
    fjobs.sort(key=lambda j: -j[0])
    fres = common.pmap(_fjob, fjobs)
    ares = common.pmap(_ajob, ajobs, chunksize=16)
    tot = dict(paths=0, reached=0, z3_checks=0, assertions=0, solver_s=0.0)
    samples = []
    names = dom.names
    for args, st, viols, errs in fres + ares:
        for k in tot:
            tot[k] += st[k]
        if st['unsupported'] or st['errors'] or st['bound_hits']:
            run.inconclusive_('harness %r: %r' % (args, errs))
        if st['reached'] == 0:
            run.inconclusive_('harness %r vacuous' % (args,))
        if args[0] == 'lex':
            samples.append({'harness': repr(args), 'stats': st})
        for msg, w in viols[:2]:
            if args[0] == 'lex':
                kinds = [names[int(v)] for k, v in sorted(w.items()) if re.fullmatch(r'k\d+', k) and str(v).isdigit()]
                from .c04 import RAW_SPELL
                text = ' '.join(RAW_SPELL.get(k, spw.get(k, k)) for k in kinds)
                suspects.append((text, args[2], 'SX path, raw kinds %s' % ' '.join(kinds), msg[-200:]))
            else:
                pr = prods[args[1]]
                suspects.append((' '.join(spw.get(x, 'a') for x in pr.prod), False, 'SX action %s' % pr, msg[-200:]))
    run.leg('F_frame_lexer_SX', harnesses=len(fjobs), max_raw_items=4 if th else 3)
    run.leg('A_frame_actions_SX', productions=len(prods) - 1, action_runs=len(ajobs))
    # ---- a frame violation needs an observable consequence to be a violation of the property
    if suspects:
        boot.load_plain()
        seen = set()
        from concurrent.futures import ThreadPoolExecutor
        for text, wc, where, d in suspects:
            sig = str(d)
            if sig in seen or len(seen) >= 3:
                continue
            seen.add(sig)
            a = (text, wc)
            cand_b = list(dict.fromkeys([a, (text, not wc)] + items[:24]))
            missing = [list(b) for b in cand_b if tuple(b) not in alone]
            if missing:
                alone.update(fresh_verdicts(missing))
            rpds = [{'property': 'C15', 'input': {'claim': 'history', 'first': list(a), 'second': list(b), 'alone': alone[tuple(b)]}} for b in cand_b]
            with ThreadPoolExecutor(12) as ex:
                outs = list(ex.map(rp.run_in_subprocess, rpds))
            hit = [(r, o) for r, o in zip(rpds, outs) if o[0]]
            if hit:
                rpd, (ok, detail) = hit[0]
                run.violation('C15 H: the result of parse() depends on what was parsed before in the same process',
                              (detail + ' [shared state written %s: %s]' % (where, d))[:600], rpd)
                continue
            found = False
            for b in [a] + items[:3]:
                rpd = {'property': 'C15', 'input': {'claim': 'threads', 'first': list(a), 'second': list(b), 'alone': alone[tuple(b)]}}
                ok, detail = rp.run_in_subprocess(rpd)
                if ok:
                    run.violation('C15 T: the result of parse() depends on parses running concurrently in other threads',
                                  (detail + ' [shared state written %s: %s]' % (where, d))[:600], rpd)
                    found = True
                    break
            if not found:
                run.inconclusive_('a parse writes to process-shared state (%s: %s, text %r) but no history or thread difference was found' % (where, d, text))
    run.coverage.update({
        'explanation': 'F: real Lexer wrapper under SX on <= %d raw items of symbolic kind (z3 finite domain), comment capture off/on: the snapshot of all module- and class-level '
                       'state of calmjs.parse.* and ply.* (%d entries) is compared after every token step and at the end of every path; A: every p_* action likewise; '
                       'W: %d real parse() calls (snapshots before/after, and at every token for %d of them); H: %d ordered pairs of parses vs fresh interpreters; T: sampled thread runs.' % (
                           4 if th else 3, len(_TL['before']), wn, wsteps, len(items) ** 2),
        'evaluations': tot['paths'] + wn + len(items) ** 2, 'distinct_nontrivial': tot['reached'] + wn,
        'rule': 'F/A: one evaluation per SX path (class of raw kind sequences / child shapes); W: one per (text, flag); H: one per ordered pair',
        'samples': samples[:6], 'queries': tot['z3_checks'], 'solver_s': round(tot['solver_s'], 1), 'assertions_discharged': tot['assertions'],
        'functions_encoded': boot.func_fingerprint(Lexer.token, Lexer._token, Lexer.auto_semi, Lexer._get_update_token, Lexer._set_tokens, Lexer.get_lexer_token)
        + ['all %d p_* actions of calmjs/parse/parsers/es5.py@%s' % (len(prods) - 1, boot.source_hash('calmjs/parse/parsers/es5.py'))],
        'snapshot': {'prefixes': PREFIXES, 'entries': len(_TL['before']), 'allowed_writes': list(ALLOW),
                     'allowed_because': 'ply backward-compatibility globals rebound at every lexer/parser construction and around the error hook; static scan: calmjs.parse never references them'},
        'bounds': {'F': 'all kind sequences of <= %d raw items, both flags' % (4 if th else 3), 'A': 'all productions x <= %d child-shape combinations' % (24 if th else 6),
                   'W': '%d texts x 2 flags' % len(corpus), 'H': 'histories of two parses over %d items' % len(items),
                   'outside': 'writes made and undone between two token steps (not visible to snapshots); state inside the C regex engine and its pattern cache; ply LRParser.parse itself '
                              '(its working state is per object: read, not executed symbolically); thread schedules are sampled, not decided - the thread half rests on the frame condition; '
                              'histories longer than two follow from the frame condition, they are not enumerated'},
    })
    run.assumptions += ['objects allocated inside parse() are not reachable from module or class level (that is what the snapshot equality on every path shows for the lexer wrapper and the actions; for ply it is read off yacc.py/lex.py)',
                        'the raw-token source models the regex level', 'CPython re objects are thread-safe and stateless between matches',
                        'ply backward-compatibility globals are never read (static scan of calmjs.parse)']
    return run.finish()
