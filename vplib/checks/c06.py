"""C06 - the token stream is a faithful, gap-free, correctly located segmentation.

Leg P (SX, line/column bookkeeping on symbolic lengths): the real Lexer.get_lexer_token / _update_newline_idx /
_get_colno / lookup_colno run on raw tokens whose lexpos are sums of SYMBOLIC lengths and gaps and whose values have
0-2 line terminators of SYMBOLIC kind (LF, CR, CRLF, U+2028, U+2029) between runs of symbolic length; the model of
PATT_LINE_TERMINATOR_SEQUENCE.split is derived from the live pattern by probing.  z3 decides on every path that
lineno = 1 + number of terminators before the token, colno = lexpos - (offset after the last terminator before it) + 1,
lookup_colno agrees, newline_idx is exactly the list of offsets after each terminator.
Leg R (z3 regular-language lemmas on the live patterns): the LINE_TERMINATOR rule and PATT_LINE_TERMINATOR_SEQUENCE
generate exactly {LF, CR, CRLF, LS, PS}; every keyword is in the identifier language; no punctuator that is a proper
prefix of another precedes it in ply's master pattern; value tokens never start with `/` except REGEX/comments.
Leg S (enumeration, replay level): every string of length <= 3 over the lexical alphabet through the real Lexer
(comments yielded): tokens ordered, non-overlapping, value == text[lexpos:...], only ES5 white space / terminators in the
gaps, line/column equal to an independent count, punctuator boundaries equal to a reference longest-match scanner.
"""
import re, sys, itertools, time
import z3
from .. import boot, common, sx, rx
from ..sx import SIntZ, SBool, SEnum
from . import c11 as c11mod, c12 as c12mod

sys.path.insert(0, common.VERIF)
from ref import refscan

TERMS = ['\n', '\r', '\r\n', '\u2028', '\u2029']
# characters that are NOT ES5 line terminators but are line boundaries for Python's str.splitlines (and may be for other
# ready-made splitters): they may occur inside a token like any other character and must not count as a line
PSEUDO = ['\x0c', '\x85']
SEPS = TERMS + PSEUDO


class SymRun:
    def __init__(self, n):
        self.n = n      # SIntZ or int

    def __add__(self, o):
        if isinstance(o, str):
            return SymRun(self.n + len(o))
        if isinstance(o, SymRun):
            return SymRun(self.n + o.n)
        return NotImplemented

    @property
    def sym_len(self):
        return self.n if isinstance(self.n, SIntZ) else SIntZ(z3.IntVal(self.n))


class TokVal:
    """token text: run0 term0 run1 term1 ... run_k, run lengths symbolic, terminator kinds symbolic"""
    def __init__(self, runs, terms):
        self.runs, self.terms = runs, terms

    def __contains__(self, ch):
        if not isinstance(ch, str):
            raise sx.SXUnsupported('in TokVal')
        alts = [t.e == i for t in self.terms for i, v in enumerate(SEPS) if ch in v]
        if not alts:
            return False
        return bool(SBool(z3.Or(alts)))

    def splitlines(self, keepends=False):
        """Python's str.splitlines: boundaries are the ES5 terminators and the PSEUDO characters; no trailing empty piece"""
        out = []
        for r, t in zip(self.runs, self.terms):
            kind = t.concretize()
            out.append(SymRun(r) + kind if keepends else SymRun(r))
        last = self.runs[-1]
        if bool(SBool(sx.zint(last) > 0)) or not self.terms:
            out.append(SymRun(last))
        return out

    @property
    def sym_len(self):
        tot = z3.IntVal(0)
        for r in self.runs:
            tot = tot + sx.zint(r)
        for t in self.terms:
            tot = tot + z3.If(t.e == TERMS.index('\r\n'), 2, 1)
        return SIntZ(z3.simplify(tot))


for _c in (SymRun, TokVal):
    sx.register_symbolic(_c)
_old_len = sx.MODELS[len]


def _m_len(x):
    if isinstance(x, (SymRun, TokVal)):
        return x.sym_len
    return _old_len(x)


sx.MODELS[len] = _m_len
_old_contains = sx.sym_contains


def _contains(c, x):
    if isinstance(c, TokVal):
        return x in c
    return _old_contains(c, x)


sx.sym_contains = _contains
SPLIT_TABLE = {}


def probe_split(pat):
    """how the live pattern splits each terminator kind (concrete probing of the compiled regex)"""
    tab = {}
    for t in SEPS:
        tab[t] = pat.split('x' + t + 'y') == ['x', t, 'y']
    tab['crlf_as_one'] = pat.split('x\r\ny') == ['x', '\r\n', 'y']
    return tab


def m_split(pat, v, *a):
    if not isinstance(v, TokVal):
        return pat.split(v, *a)
    tab = SPLIT_TABLE.get(pat.pattern)
    if tab is None:
        tab = SPLIT_TABLE[pat.pattern] = probe_split(pat)
    out = [SymRun(v.runs[0])]
    for t, r in zip(v.terms, v.runs[1:]):
        kind = t.concretize()
        if tab[kind] and (kind != '\r\n' or tab['crlf_as_one']):
            out.append(kind)
            out.append(SymRun(r))
        elif kind == '\r\n' and tab['\r'] and tab['\n']:
            out += ['\r', SymRun(0), '\n', SymRun(r)]
        else:
            out[-1] = out[-1] + kind + SymRun(r)        # not recognised as a terminator: stays inside the fragment
    return out


sx.METHOD_MODELS[(re.Pattern, 'split')] = m_split


class Raw:
    def __init__(self, toks):
        self.toks = toks
        self.i = 0
        self.lineno = 1
        self.lexpos = 0

    def token(self):
        import ply.lex as lex
        if self.i >= len(self.toks):
            return None
        typ, pos, val = self.toks[self.i]
        self.i += 1
        t = lex.LexToken()
        t.type, t.value, t.lexpos, t.lineno = typ, val, pos, self.lineno
        return t


def h_book(LexerCls, shape):
    """shape: tuple of k_i in {0,1,2}: number of terminators inside token i"""
    def harness():
        E = sx.E
        L = LexerCls.__new__(LexerCls)
        L.newline_idx = [0]
        toks = []
        pos = SIntZ(z3.IntVal(0))
        ghost_nl = [z3.IntVal(0)]            # offsets after each terminator, in order
        ghost = []
        for i, k in enumerate(shape):
            is_lt_token = (k == 3)          # a LINE_TERMINATOR token: exactly one real terminator, nothing else
            if is_lt_token:
                k = 1
            gap = SIntZ(z3.Int('gap%d' % i))
            E.solver.add(gap.e >= 0, gap.e <= 10 ** 6)
            pos = SIntZ(z3.simplify(pos.e + gap.e))
            runs, terms = [], []
            for j in range(k + 1):
                r = SIntZ(z3.Int('run%d_%d' % (i, j)))
                E.solver.add(r.e >= 0, r.e <= 10 ** 6)
                runs.append(r)
            for j in range(k):
                terms.append(SEnum.fresh('term%d_%d' % (i, j), SEPS))
            real = [bool(SBool(t.e < len(TERMS))) for t in terms]       # an ES5 terminator, or a character that only looks like one
            # a CR directly followed by a LF-initial terminator would be one CRLF: exclude that spelling of two terminators
            for j in range(k - 1):
                E.solver.add(z3.Not(z3.And(terms[j].e == TERMS.index('\r'), runs[j + 1].e == 0, terms[j + 1].e == TERMS.index('\n'))))
            if k == 0:
                E.solver.add(runs[0].e >= 1)
            elif is_lt_token:
                E.solver.add(runs[0].e == 0, runs[1].e == 0, terms[0].e < len(TERMS))
            else:
                E.solver.add(runs[0].e >= 2, runs[-1].e >= 2)        # the /* and */ of a block comment
            val = TokVal(runs, terms)
            typ = 'ID' if k == 0 else ('LINE_TERMINATOR' if is_lt_token else 'BLOCK_COMMENT')
            toks.append((typ, pos, val))
            ghost.append((pos, len(ghost_nl)))           # token start, number of terminators before it + 1 = line
            off = pos.e
            for j in range(k):
                off = off + runs[j].e + z3.If(terms[j].e == TERMS.index('\r\n'), 2, 1)
                if real[j]:
                    ghost_nl.append(z3.simplify(off))
            pos = SIntZ(z3.simplify(pos.e + val.sym_len.e))
        L.lexer = Raw(toks)
        for (gpos, gline) in ghost:
            t = L.get_lexer_token()
            E.check(t is not None, 'token lost')
            if t is None:
                return
            E.check(SBool(sx.zint(t.lineno) == gline), 'lineno != 1 + number of line terminators before the token')
            E.check(SBool(sx.zint(t.colno) == gpos.e - ghost_nl[gline - 1] + 1), 'colno != offset - (offset after the last terminator before it) + 1')
            lc = L.lookup_colno(t.lineno, t.lexpos)
            E.check(SBool(sx.zint(lc) == sx.zint(t.colno)), 'lookup_colno disagrees with the token column')
        E.check(len(L.newline_idx) == len(ghost_nl) and z3.And([sx.zint(a) == b for a, b in zip(L.newline_idx, ghost_nl)] or [z3.BoolVal(True)]),
                'newline_idx is not the list of offsets after each line terminator')
        E.check(SBool(z3.BoolVal(L.lexer.lineno == len(ghost_nl))), 'lexer line counter != 1 + number of terminators')
    return harness


def _pjob(shape):
    E = sx.new_engine(max_decisions=4000)
    E.explore(h_book(_TL['Lexer'], shape))
    return shape, E.stats(), E.violations[:3], (E.unsupported + E.errors)[:2]


_TL = {}


# ------------------------------------------------------------------------------------------ leg S
def check_lex(text):
    from calmjs.parse.lexers.es5 import Lexer
    from calmjs.parse.exceptions import ECMASyntaxError
    L = Lexer(yield_comments=True)
    L.input(text)
    toks = []
    try:
        for t in L:
            toks.append(t)
    except ECMASyntaxError:
        return None
    pos = 0
    prev_real = None
    for t in toks:
        if t.type == 'AUTOSEMI':
            continue
        if t.lexpos < pos:
            return 'tokens overlap / out of order at offset %d' % t.lexpos
        if text[t.lexpos:t.lexpos + len(t.value)] != t.value:
            return 'token %r is not the input text at its offset %d' % (t.value, t.lexpos)
        gap = text[pos:t.lexpos]
        if any(c not in refscan.WHITESPACE + refscan.LINE_TERMINATORS for c in gap):
            return 'skipped text %r between tokens is not ES5 white space' % gap
        if (t.lineno, t.colno) != c11mod.linecol(text, t.lexpos):
            return 'token %r at offset %d: lexer says %s:%s, counting line terminators gives %r' % (t.value, t.lexpos, t.lineno, t.colno, c11mod.linecol(text, t.lexpos))
        if t.type not in ('REGEX', 'LINE_TERMINATOR') and t.value and not t.value[0] in '/':
            kind, e = refscan.next_element(text, t.lexpos, False)
            if kind in ('punct', 'id', 'num') and e != t.lexpos + len(t.value):
                # numbers followed by identifier characters etc. are lexed token-by-token by calmjs; only punctuators must be longest
                if kind == 'punct':
                    return 'punctuator %r at offset %d is not the longest match (%r)' % (t.value, t.lexpos, text[t.lexpos:e])
        if t.type not in ('STRING', 'REGEX', 'LINE_COMMENT', 'BLOCK_COMMENT', 'LINE_TERMINATOR') and any(c in refscan.WHITESPACE + refscan.LINE_TERMINATORS for c in t.value):
            return 'token %r (%s) contains white space: it is not one ES5 token' % (t.value, t.type)
        if t.type == 'ID' and t.value in Lexer.keywords_dict and not (prev_real is not None and prev_real.type == 'PERIOD'):
            return 'keyword spelling %r classified as ID' % t.value
        if t.type in Lexer.keywords_dict.values() and Lexer.keywords_dict.get(t.value) != t.type:
            return 'token %r classified as keyword %s' % (t.value, t.type)
        pos = t.lexpos + len(t.value)
        if t.type not in ('LINE_COMMENT', 'BLOCK_COMMENT', 'LINE_TERMINATOR'):
            prev_real = t
    gap = text[pos:]
    if any(c not in refscan.WHITESPACE + refscan.LINE_TERMINATORS for c in gap):
        return 'trailing text %r dropped' % gap
    return None


def _sjob(chunk):
    bad = []
    n = 0
    for text in chunk:
        n += 1
        try:
            msg = check_lex(text)
        except Exception as e:
            msg = None        # foreign exceptions are C12's subject
        if msg:
            bad.append((text, msg))
    return n, bad[:20]


def replay(d):
    w = d['input']
    msg = check_lex(w['text'])
    return bool(msg), 'input %r: %s' % (w['text'], msg or 'ok')


def lemmas(run, Lexer, lexmod):
    """leg R"""
    A = rx.FULLU
    res = []
    x = z3.String('x')
    five = z3.Union(*[z3.Re(z3.StringVal(t)) for t in TERMS])
    for name, pat, flags in (('t_LINE_TERMINATOR', Lexer.t_LINE_TERMINATOR, 0), ('PATT_LINE_TERMINATOR_SEQUENCE', lexmod.PATT_LINE_TERMINATOR_SEQUENCE.pattern, lexmod.PATT_LINE_TERMINATOR_SEQUENCE.flags)):
        L = rx.translate(pat, flags, A, erase_lookaround=True)
        s = z3.Solver()
        s.set('timeout', 60000)
        s.add(z3.Xor(z3.InRe(x, L), z3.InRe(x, five)))
        r = str(s.check())
        res.append((name + ' == {LF, CR, CRLF, LS, PS}', r))
        if r == 'sat':
            from .. import pp, replay as rp
            w = pp.unescape_z3(s.model()[x].as_string())
            wit = w if w else '\n'
            confirmed = False
            for text in ('a' + wit + 'b', '/* a' + wit + 'b */ c', 'a' + ''.join(TERMS) + 'b'):
                for t in [text] + [text.replace(wit, tt) for tt in TERMS]:
                    rpd = {'property': 'C06', 'input': {'text': t, 'law': name}}
                    ok, detail = rp.run_in_subprocess(rpd)
                    if ok:
                        run.violation('R: %s does not generate exactly the five ES5 line terminator sequences' % name, 'z3 witness %r; %s' % (w, detail[:300]), rpd)
                        confirmed = True
                        break
                if confirmed:
                    break
            if not confirmed:
                run.inconclusive_('lemma %s fails (witness %r) but no probe text exhibits a wrong token position' % (name, w))
        elif r != 'unsat':
            run.inconclusive_('lemma %s: %s' % (name, r))
    # keywords are identifiers
    ID = rx.translate(Lexer.identifier, 0, A)
    for kw in Lexer.keywords_dict:
        s = z3.Solver()
        s.add(z3.Not(z3.InRe(z3.StringVal(kw), ID)))
        r = str(s.check())
        if r != 'unsat':
            run.inconclusive_('keyword %r not in the identifier language (%s)' % (kw, r))
    res.append(('keywords subset of identifier language', 'unsat x%d' % len(Lexer.keywords_dict)))
    # master pattern order: longer punctuators first
    lx = Lexer()
    master = lx.lexer.lexstatere['INITIAL']
    order = []
    for r_, names in master:
        gi = {v: k for k, v in r_.groupindex.items()}
        for i, nm in enumerate(names):
            if nm and gi.get(i):
                order.append(gi[i])
    lits = {}
    for nm in order:
        pat = getattr(Lexer, nm, None)
        if isinstance(pat, str):
            try:
                lit_ = re.sub(r'\\(.)', r'\1', pat)
                if re.fullmatch(pat, lit_):
                    lits[nm] = lit_
            except re.error:
                pass
    bad = [(a, b) for a in lits for b in lits if a != b and lits[b].startswith(lits[a]) and order.index(a) < order.index(b)]
    res.append(('no punctuator precedes a longer punctuator it prefixes (ply master order)', 'ok' if not bad else repr(bad)))
    for a, b in bad[:3]:
        run.violation('R: punctuator %s precedes %s in the master pattern' % (a, b), 'order %r' % order[:20], {'property': 'C06', 'input': {'text': 'a ' + lits[b] + ' b'}})
    if order.index('t_NUMBER') > order.index('t_PERIOD') if 't_PERIOD' in order and 't_NUMBER' in order else False:
        run.violation('R: PERIOD precedes NUMBER in the master pattern', '', {'property': 'C06', 'input': {'text': '.5'}})
    # value tokens starting with `/`
    slash = z3.Concat(z3.Re(z3.StringVal('/')), z3.Full(rx.RE_SORT))
    for nm, pat, fl in (('ID', Lexer.identifier, 0), ('NUMBER', Lexer.t_NUMBER, re.VERBOSE), ('STRING', Lexer.string, re.VERBOSE)):
        s = z3.Solver()
        s.set('timeout', 60000)
        s.add(z3.InRe(x, z3.Intersect(rx.translate(pat, fl, A, erase_lookaround=True), slash)))
        r = str(s.check())
        res.append(('%s never starts with /' % nm, r))
        if r != 'unsat':
            run.inconclusive_('lemma %s never starts with /: %s' % (nm, r))
    return res


def main():
    run = common.Run('C06', 'other')
    th = run.thorough()
    boot.load_plain()
    boot.warm_tabs()
    from calmjs.parse.lexers import es5 as lexmod_plain
    t0 = time.time()
    lem = lemmas(run, lexmod_plain.Lexer, lexmod_plain)
    run.leg('R_lemmas', results=[list(x) for x in lem], wall_s=round(time.time() - t0, 1))
    # ---- leg S
    alpha = c12mod.ALPHA_Q
    strings = ['']
    for n in (1, 2, 3):
        strings += [''.join(t) for t in itertools.product(alpha, repeat=n)]
    if th:
        strings += [''.join(t) for t in itertools.product(c12mod.ALPHA_T, repeat=4)]
    extra = ["a\r\nb\rc\n d e\n\rf", "/* a\r\nb\rc */ x 'y\\\r\nz\\\nw' q\n/re/ + 1", "x /* \n\n */ y // c\r z"]
    strings += extra
    # every character the LIVE lexer skips between tokens, every Unicode space separator and the usual invisible suspects,
    # placed between / before / after tokens and inside a comment and a string: what is skipped must be ES5 white space
    import unicodedata
    gapchars = set(lexmod_plain.Lexer.t_ignore) | {chr(c) for c in range(0x3100) if unicodedata.category(chr(c)) in ('Zs', 'Zl', 'Zp', 'Cf', 'Cc')} | {'\ufeff', '\u180e'}
    for c in sorted(gapchars):
        strings += ['a' + c + 'b', c + 'a', 'a' + c, 'var' + c + 'x', 'a' + c + 'in' + c + 'b', '1' + c + '+' + c + '2', 'a/*' + c + '*/' + c + 'b', "'" + c + "'" + c + 'b', 'a' + c + '\n' + c + 'b']
    strings = list(dict.fromkeys(strings))
    chunks = [strings[i::128] for i in range(128)]
    sres = common.pmap(_sjob, chunks)
    nstr = sum(r[0] for r in sres)
    from .. import replay as rp
    pending = {}
    for n, bad in sres:
        for text, msg in bad:
            pending.setdefault('C06 S: ' + re.sub(r"%r|'(?:[^'\\]|\\.)*'|\"(?:[^\"\\]|\\.)*\"|\d+", '..', msg)[:80], (text, msg))
    for key, (text, msg) in list(pending.items())[:20]:
        rpd = {'property': 'C06', 'input': {'text': text}}
        ok, detail = rp.run_in_subprocess(rpd)
        if ok:
            run.violation(key, detail[:400], rpd)
        else:
            run.inconclusive_('failure did not reproduce: %r %s' % (text, msg))
    # ---- leg P
    src = boot.scratch_dir()
    sx.install(src)
    from calmjs.parse.lexers import es5 as lexmod
    _TL['Lexer'] = lexmod.Lexer
    shapes = list(itertools.product((0, 1, 2), repeat=3 if th else 2)) + [(2, 2, 0), (1, 0, 2), (2, 0, 1), (3, 0), (0, 3, 3, 0), (3, 1, 0), (2, 3, 0)]
    pres = common.pmap(_pjob, shapes)
    tot = dict(paths=0, reached=0, z3_checks=0, assertions=0, solver_s=0.0)
    samples = []
    seen = set()
    for shape, st, viols, errs in pres:
        for k in tot:
            tot[k] += st[k]
        if st['unsupported'] or st['errors'] or st['bound_hits']:
            run.inconclusive_('bookkeeping harness %r: %r' % (shape, errs))
        if st['reached'] == 0:
            run.inconclusive_('bookkeeping harness %r vacuous' % (shape,))
        if len(samples) < 3 and sum(shape) >= 2:
            samples.append({'shape': list(shape), 'stats': st})
        for msg, w in viols[:1]:
            if msg in seen:
                continue
            seen.add(msg)
            # concrete text from the model: block comments / identifiers with the given run lengths and terminators
            text = ''
            for i, k in enumerate(shape):
                text += ' ' * min(int(w.get('gap%d' % i, 0) or 0), 3)
                if k == 3:
                    text += SEPS[int(w.get('term%d_0' % i, 0) or 0)]
                elif k == 0:
                    text += 'a' * max(1, min(int(w.get('run%d_0' % i, 1) or 1), 3))
                else:
                    body = ''
                    for j in range(k + 1):
                        n = int(w.get('run%d_%d' % (i, j), 0) or 0)
                        if j in (0, k):
                            n = max(n - 2, 0)          # the run includes the comment delimiter
                        body += 'c' * min(n, 3)
                        if j < k:
                            body += SEPS[int(w.get('term%d_%d' % (i, j), 0) or 0)]
                    text += '/*' + body + '*/'
            text += ' z'
            rpd = {'property': 'C06', 'input': {'text': text, 'law': msg}}
            ok, detail = rp.run_in_subprocess(rpd)
            if ok:
                run.violation('P: ' + msg, detail[:400], rpd)
            else:
                run.inconclusive_('bookkeeping obligation fails symbolically (%s) but %r does not exhibit it' % (msg, text))
    run.coverage.update({
        'explanation': 'P: real get_lexer_token/_update_newline_idx/_get_colno/lookup_colno under SX on raw tokens with symbolic offsets, run lengths and terminator kinds; '
                       'R: z3 regular-language lemmas on the live patterns; S: %d strings through the real lexer against reference counting and scanning.' % nstr,
        'evaluations': tot['paths'] + nstr, 'distinct_nontrivial': tot['reached'] + nstr,
        'rule': 'P: one per SX path (token-structure shape x terminator kinds); S: one per input string', 'samples': samples + [{'lemmas': [list(x) for x in lem][:4]}],
        'queries': tot['z3_checks'] + len(lem), 'solver_s': round(tot['solver_s'], 1), 'assertions_discharged': tot['assertions'],
        'bounds': {'P': 'sequences of %d tokens, <= 2 separator characters per token (LF, CR, CRLF, LS, PS, or FF / NEL which are not terminators), all lengths/gaps/kinds symbolic' % (3 if th else 2),
                   'S': 'all strings of length <= %d over %d class representatives' % (4 if th else 3, len(alpha)),
                   'outside': 'more terminators per token; longer inputs for S'},
    })
    run.assumptions += ['the split model of PATT_LINE_TERMINATOR_SEQUENCE is derived from the live compiled pattern by probing each terminator kind',
                        'ply strips t_ignore characters before trying token rules; first master alternative that matches wins']
    return run.finish()
