"""SX harnesses over the real Lexer wrapper on a raw-token source with symbolic kinds (vplib/rawsx.py).
H_asi   (C04): auto_semi / restricted-production AUTOSEMI vs a ghost computed from the raw sequence
H_slash (C05): the DIV/REGEX decision for a slash-initial item is the same with and without layout items
H_comm  (C13): the real-token stream (kinds, AUTOSEMI insertions, slash decisions) is the same with comment items removed,
               and every comment is handed to exactly the next real token, in order
"""
import itertools, time
import z3
from .. import sx, rawsx
from ..sx import SBool

RESTRICTED = ['BREAK', 'CONTINUE', 'RETURN', 'THROW']
COMMENTS = ['LINE_COMMENT', 'BLOCK_COMMENT', 'BLOCK_COMMENT_ML']


def _layout(k):
    return k.among(rawsx.LAYOUT)


def drive(L, src, maxsteps=40):
    """pull tokens until EOF; returns list of (token, raw indices consumed for it)"""
    out = []
    for _ in range(maxsteps):
        b = src.i
        tok = L.token()
        if tok is None:
            return out
        out.append((tok, b, src.i))
    raise sx.SXBound()


def h_asi(LexerCls, dom, n, exclude_known):
    """n raw items, all kinds symbolic"""
    from calmjs.parse.lexers.tokens import AutoLexToken
    from calmjs.parse.exceptions import ECMASyntaxError

    def harness():
        E = sx.E
        L, src, kinds = rawsx.make_lexer(LexerCls, dom, n)
        prev_real = None          # index of previous real raw item
        count = 0
        pending = []              # layout items read since the previous real token (also across an AUTOSEMI emission)
        while True:
            b = src.i
            try:
                tok = L.token()
            except ECMASyntaxError:
                return
            if tok is None:
                break
            count += 1
            if count > 3 * n + 3:
                raise sx.SXBound()
            consumed = list(range(b, src.i))
            if isinstance(tok, AutoLexToken):
                # restricted production: must be at a line terminator following return/break/continue/throw (ghost)
                if prev_real is None:
                    E.check(False, 'AUTOSEMI emitted before any real token')
                    continue
                lt_here = kinds[consumed[-1]].among(['LINE_TERMINATOR']) if consumed else z3.BoolVal(False)
                E.check(z3.And(kinds[prev_real].among(RESTRICTED), lt_here),
                        'AUTOSEMI emitted by the lexer although the previous real token is not return/break/continue/throw followed by a line terminator')
                pending += consumed
                continue
            real_idx = consumed[-1]
            between = pending + consumed[:-1]
            pending = []
            nl = z3.Or([kinds[j].among(['LINE_TERMINATOR', 'BLOCK_COMMENT_ML']) for j in between] or [z3.BoolVal(False)])
            # known-finding classes (see known_findings.json): a comment after the terminator hides it; a multi-line comment
            # is not counted as a terminator
            last_is_lt = kinds[between[-1]].among(['LINE_TERMINATOR']) if between else z3.BoolVal(False)
            known = z3.And(nl, z3.Not(last_is_lt))
            saved = list(L.next_tokens)
            r = L.auto_semi(tok)
            L.next_tokens = saved
            got = r is not None
            kind = tok.type
            if isinstance(kind, str):
                is_semi = z3.BoolVal(kind in ('SEMI', 'AUTOSEMI'))
                is_rbrace = z3.BoolVal(kind == 'RBRACE')
            else:
                is_semi = kind.among(['SEMI'])
                is_rbrace = kind.among(['RBRACE'])
            if prev_real is not None:
                expect = z3.And(z3.Not(is_semi), z3.Or(is_rbrace, nl))
                cond = (expect == z3.BoolVal(got))
                if exclude_known:
                    cond = z3.Or(known, cond)
                E.check(cond, 'auto_semi: a semicolon is %s although the offending token is %s' % (
                    'supplied' if got else 'refused', 'not separated by a line terminator / not } ' if got else 'separated from the previous token by a line terminator (or is })'))
                # restricted productions: a line terminator directly after return/... must have produced AUTOSEMI before this token
                # (checked through the AutoLexToken branch above: here the ghost says none was due)
                first_lt = None
            prev_real = real_idx
        E._path_reached = True
    return harness


def h_restricted(LexerCls, dom, pattern, exclude_known, nprefix=0):
    """raw items: R (restricted keyword), then layout items per `pattern` ('L' = any layout kind), then one real token:
    AUTOSEMI must be emitted iff a line terminator (incl. inside a multi-line comment) occurs among the layout items"""
    from calmjs.parse.lexers.tokens import AutoLexToken

    def harness():
        E = sx.E
        n = 2 + len(pattern) + nprefix
        L, src, allk = rawsx.make_lexer(LexerCls, dom, n)
        for j in range(nprefix):
            # arbitrary real tokens before the keyword (open parentheses, braces, ...), not themselves restricted keywords
            E.solver.add(z3.Not(_layout(allk[j])), z3.Not(allk[j].among(rawsx.SLASH_FIRST + RESTRICTED + ['RPAREN', 'PERIOD'])))
        kinds = allk[nprefix:]
        E.solver.add(kinds[0].among(RESTRICTED))
        for j in range(len(pattern)):
            E.solver.add(_layout(kinds[1 + j]))
        E.solver.add(z3.Not(_layout(kinds[-1])), z3.Not(kinds[-1].among(rawsx.SLASH_FIRST)))
        from calmjs.parse.exceptions import ECMASyntaxError
        try:
            toks = [t for t, b, e in drive(L, src)]
        except ECMASyntaxError:
            E._path_reached = True
            return            # e.g. an unmatched `)` as the operand: the lexer rejects the input
        autos = [t for t in toks if isinstance(t, AutoLexToken)]
        lay = kinds[1:-1]
        nl = z3.Or([k.among(['LINE_TERMINATOR', 'BLOCK_COMMENT_ML']) for k in lay] or [z3.BoolVal(False)])
        # known class: the first line terminator is preceded by a comment, or only a multi-line comment carries it
        first_is_lt = lay[0].among(['LINE_TERMINATOR']) if lay else z3.BoolVal(False)
        known = z3.And(nl, z3.Not(first_is_lt))
        cond = (nl == z3.BoolVal(len(autos) > 0))
        if exclude_known:
            cond = z3.Or(known, cond)
        E.check(cond, 'restricted production: virtual semicolon %s although a line terminator %s the keyword and its operand' % (
            'emitted' if autos else 'not emitted', 'does not separate' if autos else 'separates'))
        E.check(len(autos) <= 1, 'more than one virtual semicolon after a restricted keyword')
    return harness


def h_slash(LexerCls, dom, nreal, placement, exclude_known, with_comments=False):
    """nreal real items followed by a slash-initial item; `placement` = tuple of gap indices (0..nreal) that carry one layout item.
    Lexer A sees the layout items, lexer B does not; the face given to the slash item must be the same."""
    def harness():
        E = sx.E
        nA = nreal + len(placement) + 1
        LA, srcA, kA = rawsx.make_lexer(LexerCls, dom, nA, with_comments=with_comments)
        # positions in A
        realpos = []
        laypos = []
        p = 0
        for g in range(nreal + 1):
            for _ in [x for x in placement if x == g]:
                laypos.append(p)
                p += 1
            if g < nreal:
                realpos.append(p)
                p += 1
        slashA = p
        assert slashA == nA - 1
        for j in laypos:
            E.solver.add(_layout(kA[j]))
        for j in realpos:
            E.solver.add(z3.Not(_layout(kA[j])), z3.Not(kA[j].among(rawsx.SLASH_FIRST)))
        E.solver.add(kA[slashA].among(['DIV', 'REGEX']))
        LB, srcB, kB = rawsx.make_lexer(LexerCls, dom, nreal + 1, with_comments=with_comments, tag='b')
        for a, b in zip(realpos + [slashA], range(nreal + 1)):
            E.solver.add(kB[b].e == kA[a].e)
        from calmjs.parse.exceptions import ECMASyntaxError
        try:
            drive(LA, srcA)
            errA = False
        except ECMASyntaxError:
            errA = True
        try:
            drive(LB, srcB)
            errB = False
        except ECMASyntaxError:
            errB = True
        fa = [f for (i, mode, f) in srcA.reads if i == slashA]
        fb = [f for (i, mode, f) in srcB.reads if i == nreal]
        # restricted keyword directly before the layout: the terminator legitimately changes the token stream (AUTOSEMI)
        legit = z3.BoolVal(False)
        if nreal:
            last_gap_has_layout = nreal in placement
            if last_gap_has_layout:
                legit = kA[realpos[-1]].among(RESTRICTED)
        known = z3.BoolVal(False)
        if nreal and nreal in placement:
            # known finding: the header marker kept for `)` is overwritten by a layout token read after it
            known = kA[realpos[-1]].among(['RPAREN'])
        cond = z3.BoolVal(errA == errB and fa[-1:] == fb[-1:])
        cond = z3.Or(legit, cond)
        if exclude_known:
            cond = z3.Or(known, cond)
        E.check(cond, 'the reading of `/` (division vs regex start) changes when layout (line terminators/comments) is inserted: %r vs %r' % (fa[-1:], fb[-1:]))
    return harness


def h_comments(LexerCls, dom, nreal, placement, exclude_known=True):
    """as h_slash but the inserted items are comments only and every item is free: the stream of real tokens
    (kinds incl. AUTOSEMI, slash faces) with with_comments on and off equals the stream without the comment items"""
    from calmjs.parse.lexers.tokens import AutoLexToken

    def harness():
        E = sx.E
        nA = nreal + len(placement)
        for wc in (False, True):
            LA, srcA, kA = rawsx.make_lexer(LexerCls, dom, nA, with_comments=wc, tag='k%d_' % int(wc))
            realpos, compos = [], []
            p = 0
            for g in range(nreal + 1):
                for _ in [x for x in placement if x == g]:
                    compos.append(p)
                    p += 1
                if g < nreal:
                    realpos.append(p)
                    p += 1
            for j in compos:
                E.solver.add(kA[j].among(['LINE_COMMENT', 'BLOCK_COMMENT']))     # single-line comments: pure white space by 7.4
            for j in realpos:
                E.solver.add(z3.Not(kA[j].among(COMMENTS)))
            LB, srcB, kB = rawsx.make_lexer(LexerCls, dom, nreal, with_comments=wc, tag='b%d_' % int(wc))
            for a, b in zip(realpos, range(nreal)):
                E.solver.add(kB[b].e == kA[a].e)
            from calmjs.parse.exceptions import ECMASyntaxError

            def stream(L, src):
                out = []
                try:
                    for tok, b, e in drive(L, src):
                        hid = [h for h in getattr(tok, 'hidden_tokens', [])]
                        out.append(('AUTOSEMI' if isinstance(tok, AutoLexToken) else 'tok', len(hid)))
                except ECMASyntaxError:
                    out.append(('error', 0))
                faces = [f for (i, mode, f) in src.reads if f]
                return out, faces
            sa, fa = stream(LA, srcA)
            sb, fb = stream(LB, srcB)
            # known finding (C04/C13): a comment between return/break/continue/throw and the following line terminator
            # suppresses the virtual semicolon
            known = z3.BoolVal(False)
            for j in compos:
                prevs = [r for r in realpos if r < j]
                nexts = [r for r in realpos if r > j]
                if prevs and nexts:
                    known = z3.Or(known, z3.And(kA[prevs[-1]].among(RESTRICTED), kA[nexts[0]].among(['LINE_TERMINATOR'])))
            E.check(z3.Or(known if exclude_known else z3.BoolVal(False), z3.BoolVal([x[0] for x in sa] == [x[0] for x in sb] and fa == fb)),
                    'token stream differs when comments are present (with_comments=%r): %r / %r vs %r / %r' % (wc, [x[0] for x in sa], fa, [x[0] for x in sb], fb))
            if wc:
                E.check(sum(x[1] for x in sa) <= len(compos), 'a comment is handed to more than one token')
    return harness


def run(harness, max_decisions=4000):
    E = sx.new_engine(max_decisions=max_decisions)
    t = time.time()
    E.explore(harness)
    st = E.stats()
    st['wall'] = round(time.time() - t, 2)
    return E, st
