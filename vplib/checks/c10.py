"""C10 - Base64-VLQ codec: bijection, canonical Source Map V3 form.

Deciding step: the real ``vlq.encode_vlq / vlq_decoder / decode_vlq(s) / encode_vlqs / decode_vlqs /
encode_mappings / decode_mappings`` are executed by SX on bit-vector integers and on strings of symbolic
base64 characters; z3 decides every branch and, per path, the negated law.  The reference codec
(ref/vlq_ref.py, from the specification) runs under the same engine on the same symbolic data.
"""
import sys, os, time, itertools
import z3
from .. import boot, common, sx
from ..sx import SInt, SBool, SStr

sys.path.insert(0, common.VERIF)
from ref import vlq_ref


def _load():
    src = boot.scratch_dir()
    sx.install(src)
    import calmjs.parse.vlq as vlq
    return vlq


def _eq_chars(a, b):
    """z3 condition: SStr/str a equals SStr/str b (same concrete length required)"""
    ca, cb = sx._chars(a), sx._chars(b)
    if len(ca) != len(cb):
        return z3.BoolVal(False)
    return z3.And([sx._code(x, y) for x, y in zip(ca, cb)] or [z3.BoolVal(True)])


def _digits_to_str(ds):
    out = []
    for d in ds:
        if isinstance(d, int):
            out.append(vlq_ref.ALPHABET[d])
        else:
            out += sx.sym_getitem(vlq_ref.ALPHABET, d).cs
    return SStr(out) if any(not isinstance(c, str) for c in out) else ''.join(out)


# ---------------------------------------------------------------- harness sections
def h_single(vlq, W, lo_bits, hi_bits, sign):
    """all i with 2^lo_bits <= |i| < 2^hi_bits (lo_bits<0: from 0) and the given sign"""
    def harness():
        E = sx.E
        i = SInt(z3.BitVec('i', W))
        mag = i.e if sign > 0 else -i.e
        E.solver.add(i.e >= 0 if sign > 0 else i.e < 0)
        E.solver.add(z3.ULT(mag, z3.BitVecVal(1 << hi_bits, W)))
        if lo_bits >= 0:
            E.solver.add(z3.UGE(mag, z3.BitVecVal(1 << lo_bits, W)))
        s = vlq.encode_vlq(i)
        back = vlq.decode_vlqs(s)
        wit = lambda m: {'i': m.eval(i.e, model_completion=True).as_signed_long()}
        E.check(len(back) == 1 and back[0] == i, 'decode_vlqs(encode_vlq(i)) != (i,)', wit)
        first = vlq.decode_vlq(s)
        E.check(first == i, 'decode_vlq(encode_vlq(i)) != i', wit)
        ref = _digits_to_str(vlq_ref.encode_digits(i))
        E.check(_eq_chars(s, ref), 'encode_vlq(i) is not the canonical Source Map V3 encoding', wit)
        refback = vlq_ref.decode_digits(vlq_ref.encode_digits(i))
        E.check(len(refback) == 1 and refback[0] == i, 'reference codec self-check', wit)
    return harness


def h_list(vlq, W, k, bits):
    def harness():
        E = sx.E
        xs = [SInt(z3.BitVec('i%d' % j, W)) for j in range(k)]
        for x in xs:
            E.solver.add(x.e > -(1 << bits), x.e < (1 << bits))
        s = vlq.encode_vlqs(xs)
        back = vlq.decode_vlqs(s)
        wit = lambda m: {'ints': [m.eval(x.e, model_completion=True).as_signed_long() for x in xs]}
        ok = len(back) == k
        E.check(ok and z3.And([(b == x).e for b, x in zip(back, xs)] or [z3.BoolVal(True)]),
                'decode_vlqs(encode_vlqs(xs)) != xs', wit)
        refs = _digits_to_str([d for x in xs for d in vlq_ref.encode_digits(x)]) if k else ''
        E.check(_eq_chars(s, refs), 'encode_vlqs(xs) != concatenated canonical encodings', wit)
    return harness


def h_string(vlq, W, ends):
    """every canonical VLQ string whose numbers end exactly at the positions flagged in `ends`
    (the continuation-bit pattern is the task; digits, signs and values stay symbolic):
    encode(decode(s)) == s, decode == reference"""
    L = len(ends)

    def harness():
        E = sx.E
        ds = [SInt(z3.BitVec('d%d' % j, W)) for j in range(L)]
        for d, e in zip(ds, ends):
            E.solver.add(d.e >= 0, d.e < 64, ((d.e & 32) == 0) == bool(e))
        # canonical-form predicate (image of the spec encoder): last digit has no continuation bit; the final
        # digit of a multi-digit number is non-zero; a single digit is not 1 ("-0")
        E.solver.add((ds[-1].e & 32) == 0)
        for j in range(L):
            endj = (ds[j].e & 32) == 0
            startj = z3.BoolVal(True) if j == 0 else (ds[j - 1].e & 32) == 0
            E.solver.add(z3.Implies(z3.And(endj, z3.Not(startj)), ds[j].e != 0))
            E.solver.add(z3.Implies(z3.And(endj, startj), ds[j].e != 1))
        s = _digits_to_str(ds)
        ints = vlq.decode_vlqs(s)
        wit = lambda m: {'s': ''.join(vlq_ref.ALPHABET[m.eval(d.e, model_completion=True).as_long()] for d in ds)}
        refints = vlq_ref.decode_digits(ds)
        E.check(len(ints) == len(refints) and z3.And([(a == b).e for a, b in zip(ints, refints)] or [z3.BoolVal(True)]),
                'decode_vlqs(s) != reference decoding', wit)
        s2 = vlq.encode_vlqs(ints)
        E.check(_eq_chars(s2, s), 'encode_vlqs(decode_vlqs(s)) != s for canonical s', wit)
    return harness


K_NO_LINES = 'mappings: the structure with no line at all ([]) encodes to the empty text, which decodes to one empty line ([[]])'


def h_mappings(vlq, W, shape, bits, wide):
    """shape: tuple of lines, each a tuple of arities; the wide-th integer ranges over |x| < 2^bits,
    the others over 0 <= x < 8 (single-digit encodings) - keeps the path product small"""
    def harness():
        E = sx.E
        m = []
        allv = []
        for li, line in enumerate(shape):
            segs = []
            for si, ar in enumerate(line):
                seg = [SInt(z3.BitVec('m_%d_%d_%d' % (li, si, a), W)) for a in range(ar)]
                for x in seg:
                    if len(allv) == wide:
                        E.solver.add(x.e > -(1 << bits), x.e < (1 << bits))
                    else:
                        E.solver.add(x.e >= 0, x.e < 8)
                    allv.append(x)
                segs.append(tuple(seg))
            m.append(segs)
        text = vlq.encode_mappings(m)
        back = vlq.decode_mappings(text)
        wit = lambda mo: {'mappings': [[[mo.eval(x.e, model_completion=True).as_signed_long() for x in seg]
                                         for seg in line] for line in m]}
        same_shape = len(back) == len(m) and all(len(a) == len(b) for a, b in zip(back, m)) and \
            all(len(x) == len(y) for a, b in zip(back, m) for x, y in zip(a, b))
        if not same_shape:
            E.check(False, 'decode_mappings(encode_mappings(m)) has a different shape', wit)
            return
        conds = [(p == q).e for a, b in zip(back, m) for x, y in zip(a, b) for p, q in zip(x, y)]
        E.check(z3.And(conds or [z3.BoolVal(True)]), 'decode_mappings(encode_mappings(m)) != m', wit)
        # the text is exactly the spec's: segments joined by ',', lines by ';'
        exp = []
        for li, line in enumerate(m):
            if li:
                exp.append(';')
            for si, seg in enumerate(line):
                if si:
                    exp.append(',')
                for x in seg:
                    exp += sx._chars(_digits_to_str(vlq_ref.encode_digits(x)))
        E.check(_eq_chars(text, SStr(exp)), 'encode_mappings(m) is not the canonical mappings text', wit)
    return harness


def fallback_probe(run):
    """Only used when SX left the modelled fragment (inconclusive): concrete probing at the points the
    symbolic bands are split at, through the replay function.  It can turn an inconclusive run into a
    *confirmed* violation, never into a pass."""
    from .. import replay as rp
    pts = set(range(-70, 71))
    for k in range(1, 62):
        for d in range(-3, 4):
            pts.add((1 << k) + d)
            pts.add(-((1 << k) + d))
            pts.add((32 ** k + d) >> 1)
            pts.add(-((32 ** k + d) >> 1))
    small = sorted(set(range(-1100, 1101)) | {v for v in pts if abs(v) < 2 ** 40})
    items = [{'i': i} for i in sorted(pts)]
    items += [{'ints': [a, b]} for a in (0, 1, -1, 15, 16, -16, 31, -31, 47, 495, 1008, -511) for b in (0, 16, -1, 31)]
    items += [{'ints': [v]} for v in range(-40, 41)]
    items += [{'mappings': [[[v]]]} for v in small[::1] if abs(v) <= 1100]
    items += [{'mappings': [[[a, 0, b, 1], [c]], [], [[b, 1, a, 0, c]]]} for a in (0, 16, 31, -31, 495) for b in (1, -16, 47, 1008) for c in (0, 15, -511, 33)]
    code = ("import sys, json\nsys.path.insert(0, %r)\nfrom vplib import boot\nboot.load_plain()\n"
            "from vplib.checks import c10\nout=[]\nseen=set()\n"
            "for it in json.loads(sys.stdin.read()):\n"
            "    try:\n        b, d = c10.replay({'input': it})\n    except Exception as e:\n        b, d = True, 'exception %%r' %% (e,)\n"
            "    k = sorted(it)[0]\n"
            "    if b and k not in seen:\n        seen.add(k); out.append([it, d])\nprint(json.dumps(out[:5]))\n") % common.VERIF
    import subprocess, json as _j
    env = dict(os.environ, CALMJS_VERIF_SCRATCH=boot.scratch_dir())
    r = subprocess.run([sys.executable, '-c', code], input=_j.dumps(items), capture_output=True, text=True, env=env, cwd=common.VERIF)
    if r.returncode != 0:
        return 0
    for it, d in _j.loads(r.stdout.strip().splitlines()[-1]):
        kind = sorted(it)[0]
        run.violation({'i': 'single', 'ints': 'list', 'mappings': 'mappings'}[kind] + ': concrete probe', 'codec law fails at %r: %s' % (it, d[:300]), {'property': 'C10', 'input': it, 'law': 'concrete probe'})
    return len(items)


# ---------------------------------------------------------------- driver
def _run_task(task):
    kind, args = task
    vlq = _TL['vlq']
    E = sx.new_engine(max_decisions=4000, timeout_ms=120000)
    h = {'single': h_single, 'list': h_list, 'string': h_string, 'mappings': h_mappings}[kind](vlq, *args)
    t = time.time()
    E.explore(h)
    st = E.stats()
    st['wall'] = round(time.time() - t, 2)
    return kind, args, st, E.violations[:5], E.unsupported[:3] + E.errors[:3]


_TL = {}


def replay(d):
    """plain package: does the counterexample really break the law?"""
    import calmjs.parse.vlq as vlq
    w = d['input']
    if 'i' in w:
        i = int(w['i'])
        s = vlq.encode_vlq(i)
        ref = ''.join(vlq_ref.ALPHABET[x] for x in vlq_ref.encode_digits(i))
        bad = vlq.decode_vlqs(s) != (i,) or vlq.decode_vlq(s) != i or s != ref
        return bad, 'i=%d encode=%r decode=%r ref=%r' % (i, s, vlq.decode_vlqs(s), ref)
    if 'ints' in w:
        xs = [int(x) for x in w['ints']]
        s = vlq.encode_vlqs(xs)
        ref = ''.join(vlq_ref.ALPHABET[x] for i in xs for x in vlq_ref.encode_digits(i))
        return (vlq.decode_vlqs(s) != tuple(xs) or s != ref), 'ints=%r encode=%r decode=%r' % (xs, s, vlq.decode_vlqs(s))
    if 's' in w:
        s = w['s']
        ints = vlq.decode_vlqs(s)
        refints = vlq_ref.decode_digits([vlq_ref.ALPHABET.index(c) for c in s])
        return (list(ints) != refints or vlq.encode_vlqs(ints) != s), 's=%r decode=%r ref=%r re-encode=%r' % (
            s, ints, refints, vlq.encode_vlqs(ints))
    if 'mappings' in w:
        m = w['mappings']
        t = vlq.encode_mappings(m)
        back = vlq.decode_mappings(t)
        exp = ';'.join(','.join(''.join(vlq_ref.ALPHABET[x] for i in seg for x in vlq_ref.encode_digits(i))
                                for seg in line) for line in m)
        norm = [[list(seg) for seg in line] for line in back]
        return (norm != m or t != exp), 'mappings=%r text=%r back=%r' % (m, t, back)
    raise common.HarnessError('unknown replay input %r' % (w,))


def main():
    run = common.Run('C10', 'other')
    vlq = _load()
    _TL['vlq'] = vlq
    th = run.thorough()
    W = 320 if th else 72
    top = 300 if th else 64
    tasks = []
    # single integers, split by magnitude band (one band per encoded length) and sign
    bands = [(-1, 4)] + [(b, b + 5) for b in range(4, top - 1, 5)]
    for lo, hi in bands:
        hi = min(hi, top)
        for sign in (1, -1):
            tasks.append(('single', (W, lo, hi, sign)))
    WL = 40
    for k, bits in ([(0, 4), (1, 14), (2, 14), (3, 4)] if not th else [(0, 4), (1, 29), (2, 19), (3, 9), (4, 4)]):
        tasks.append(('list', (WL, k, bits)))
    maxL = 4 if not th else 7
    for L in range(1, maxL + 1):
        for pat in itertools.product((0, 1), repeat=L - 1):
            # strings of more than four values only repeat independent single-value decodings (and cost 4^values paths)
            if L <= 4 or sum(pat) + 1 <= 3:
                tasks.append(('string', (40, tuple(pat) + (1,))))
    ar = (1, 4, 5)
    shapes = [((1,),), ((4,), (1,)), ((), (5, 4)), ((5,), (), (4,)), (), ((),)]      # incl. no line at all and one empty line
    if th:
        shapes = []
        one = [()] + [(a,) for a in ar] + [(a, b) for a in ar for b in ar]
        shapes += [(l,) for l in one]
        shapes += [(l1, l2) for l1 in ((), (1,), (4,), (5, 4)) for l2 in ((), (1,), (5,), (4, 1))]
        shapes.append(((5,), (), (4,)))
        shapes.append(())
    for sh in shapes:
        n = sum(len(l) and sum(l) for l in sh)
        for wide in (sorted({0, max(n // 2, 0), max(n - 1, 0)}) if th else sorted({0, max(n - 1, 0)})):
            tasks.append(('mappings', (WL, sh, 14, wide)))
    results = common.pmap(_run_task, tasks)
    tot = dict(paths=0, reached=0, z3_checks=0, assertions=0, solver_s=0.0)
    samples = []
    per_kind = {}
    for kind, args, st, viols, unsup in results:
        for k in tot:
            tot[k] += st[k]
        pk = per_kind.setdefault(kind, dict(tasks=0, paths=0, z3_checks=0, assertions=0, solver_s=0.0))
        pk['tasks'] += 1
        for k in ('paths', 'z3_checks', 'assertions', 'solver_s'):
            pk[k] = round(pk[k] + st[k], 3)
        if st['unsupported'] or st['bound_hits'] or st['errors']:
            run.inconclusive_('%s%r: unsupported=%r bound_hits=%d' % (kind, args, unsup, st['bound_hits']))
        if st['reached'] == 0:
            run.inconclusive_('%s%r: vacuous - no path reached an assertion' % (kind, args))
        if len(samples) < 6 and kind not in [s['kind'] for s in samples]:
            samples.append({'kind': kind, 'args': repr(args), 'stats': st})
        seen = set()
        for msg, w in viols:
            key = '%s: %s' % (kind, msg)
            if kind == 'mappings' and w.get('mappings') == []:
                key = K_NO_LINES
            if key in seen:
                continue
            seen.add(key)
            rp = {'property': 'C10', 'input': w, 'law': msg}
            ok, detail = __import__('vplib.replay', fromlist=['x']).run_in_subprocess(rp)
            if ok:
                run.violation(key, '%s; witness %r; %s' % (msg, w, detail[:300]), rp)
            else:
                run.inconclusive_('counterexample did not reproduce on the plain package (encoding error?): %s %r' % (msg, w))
    if run.inconclusive and not run.violations:
        n = fallback_probe(run)
        run.leg('fallback_concrete_probe', points=n, note='SX was inconclusive; concrete probing can only add confirmed violations')
    run.coverage.update({
        'explanation': 'Symbolic execution (SX: AST-instrumented real vlq.py, z3 bit-vectors) of encode_vlq, vlq_decoder, '
                       'decode_vlq, decode_vlqs, encode_vlqs, encode_mappings, decode_mappings against the laws decode.encode=id, '
                       'encode=spec-canonical, encode.decode=id on canonical strings, and against ref/vlq_ref.py executed on the same '
                       'symbolic data. Every path covers all integers of its magnitude band; z3 decides each branch and each negated law.',
        'functions_encoded': boot.func_fingerprint(vlq.encode_vlq, vlq.encode_vlqs, vlq.vlq_decoder, vlq.decode_vlq,
                                                   vlq.decode_vlqs, vlq.encode_mappings, vlq.decode_mappings),
        'bounds': {'single_int': '|i| < 2^%d (BV-%d with no-overflow obligations: results equal unbounded Python ints)' % (top, W),
                   'lists': 'see tasks: (k elements, |x| < 2^bits)', 'canonical_strings': 'every length 1..%d, every continuation pattern (length > 4: patterns of at most three values)' % maxL,
                   'mappings_shapes': len(shapes),
                   'outside': 'integers of larger magnitude, longer lists/strings, non-canonical input strings (only decode==reference is claimed for them inside the length bound)'},
        'queries': tot['z3_checks'], 'paths': tot['paths'], 'assertions_discharged': tot['assertions'],
        'solver_s': round(tot['solver_s'], 2), 'per_section': per_kind,
        'evaluations': tot['paths'], 'distinct_nontrivial': tot['reached'],
        'rule': 'one evaluation = one symbolic path (a set of integers/strings sharing all branch outcomes) on which every law was discharged by z3; distinct by decision prefix',
        'samples': samples,
    })
    run.assumptions += ['z3 4/5 bit-vector semantics; BV width W with explicit no-overflow side conditions on + - * << neg',
                        'SX instrumentation preserves concrete semantics (setup: repository test-suite on the instrumented package)',
                        'str.join / str.split modelled on strings with symbolic characters']
    return run.finish()
