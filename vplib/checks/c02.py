"""C02 - minified output parses back to the same program; no token fusion; dropped semicolons restorable
(see ppcheck.py / pp.py)"""
from .. import common
from . import ppcheck


def keyfn(kind, msg, itext, cfg):
    return 'C02 %s: %s | %s' % (cfg, msg.split(':')[0][:100], itext[:60])


def replay(d):
    return ppcheck.replay_generic(d)


def main():
    run = common.Run('C02', 'other')
    th = run.thorough()
    cfgs = [('minify', False), ('minify', True)]
    ppcheck.drive(run, 'C02', cfgs, 4 if th else 3, th, keyfn)
    return run.finish()
