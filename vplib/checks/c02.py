"""C02 - minified output parses back to the same program; no token fusion; dropped semicolons restorable
(see ppcheck.py / pp.py)"""
from .. import common
from . import ppcheck


import re

K_SEMI_EMPTY_BLOCK = ('C02 minify drop_semi: the `;` that ends a statement is dropped when only the braces of empty blocks (and closing braces) follow it, '
                      'although it is then followed by `{`')


def keyfn(kind, msg, itext, cfg):
    if cfg[0] == 'minify' and cfg[1] and re.search(r';\s*\{\s*\}(?:\s*[{}])*\s*$', itext):
        return K_SEMI_EMPTY_BLOCK
    return 'C02 %s: %s | %s' % (cfg, msg.split(':')[0][:100], itext[:60])


def replay(d):
    return ppcheck.replay_generic(d)


def main():
    run = common.Run('C02', 'other')
    th = run.thorough()
    cfgs = [('minify', False), ('minify', True)]
    ppcheck.drive(run, 'C02', cfgs, 4 if th else 3, th, keyfn)
    return run.finish()
