"""C20 - pretty output is indented exactly by block depth and ends with exactly one newline.

The real pretty printer (Indentator handlers, (Indent, Newline, Dedent) normalisation, definitions) runs under SX on
every structure of the bounded space with the INDENTATION STRING SYMBOLIC (a z3 string over space/tab, length <= 3,
including the empty string) and symbolic leaf spellings; per path z3 decides, for every output line that starts a
token, that its leading text equals indent_str repeated depth times, where depth is computed by an independent
brace/case counter over the token skeleton of the output; final depth 0; exactly one trailing newline.
"""
import re, sys, time
import z3
from .. import boot, common, sx, pp, rx
from ..sx import SZ3Str
from . import ppcheck

PLACE = {'Identifier': 'L', 'PropIdentifier': 'L', 'Number': '0', 'String': "'s'", 'Regex': '/r/'}


def _mul(self, n):
    if not isinstance(n, int):
        raise sx.SXUnsupported('str * symbolic')
    if n <= 0:
        return ''
    e = self.e
    for _ in range(n - 1):
        e = z3.Concat(e, self.e)
    return SZ3Str(e)


SZ3Str.__mul__ = _mul
SZ3Str.__rmul__ = _mul


def expected_depths(skel_lines):
    """independent reference: depth of each line = open braces (blocks, function bodies, object literals, switch blocks)
    + 1 inside a case/default body; a line starting with } belongs to the enclosing level"""
    stack = []          # entries: dict(kind='switch'|'other', in_case=bool)
    depths = []
    pending_switch = 0  # paren depth tracking to recognise `switch ( ... ) {`
    saw_switch = False
    paren = 0
    switch_paren = None
    for line in skel_lines:
        toks = re.findall(r"'s'|/r/|[A-Za-z_$][\w$]*|[{}()\[\]:?;,]|[^\s\w]", line)
        d = len(stack) + sum(1 for s in stack if s['kind'] == 'switch' and s['in_case'])
        if toks:
            if toks[0] == '}':
                top = stack[-1] if stack else None
                d = len(stack) - 1 + sum(1 for s in stack[:-1] if s['kind'] == 'switch' and s['in_case'])
            elif toks[0] in ('case', 'default') and stack and stack[-1]['kind'] == 'switch':
                d = len(stack) + sum(1 for s in stack[:-1] if s['kind'] == 'switch' and s['in_case'])
        depths.append(d if toks else None)
        for i, t in enumerate(toks):
            if t == 'switch' and (i == 0 or toks[i - 1] != '.'):
                saw_switch = True
            elif t == '(':
                paren += 1
                if saw_switch and switch_paren is None:
                    switch_paren = paren
                    saw_switch = False
            elif t == ')':
                if switch_paren == paren:
                    switch_paren = -1          # next { opens the switch block
                paren -= 1
            elif t == '{':
                if switch_paren == -1:
                    stack.append({'kind': 'switch', 'in_case': False})
                    switch_paren = None
                else:
                    stack.append({'kind': 'other', 'in_case': False})
            elif t == '}':
                if stack:
                    stack.pop()
            elif t in ('case', 'default') and stack and stack[-1]['kind'] == 'switch' and (i == 0):
                stack[-1]['in_case'] = True
    return depths, len(stack)


def run_structure(text):
    from calmjs.parse.parsers.es5 import parse
    from calmjs.parse.walkers import Walker
    from calmjs.parse.unparsers import es5 as u
    langs = ppcheck._TL['langs']
    E = sx.new_engine(max_decisions=800, timeout_ms=20000)
    E.use_cache = True
    info = {}

    def harness():
        tree = parse(text)
        leaves = pp.abstract_leaves(tree, langs, ppcheck.MAXLEN, Walker)
        ind = z3.String('indent')
        E.solver.add(z3.InRe(ind, z3.Star(z3.Union(z3.Re(' '), z3.Re('\t')))), z3.Length(ind) <= 3)
        leafids = {lf['var'].get_id(): lf for lf in leaves}
        frags = list(u.pretty_printer(SZ3Str(ind))(tree))
        # lines: list of pieces; piece = ('c', str) | ('leaf', kind) | ('ind', term)
        lines = [[]]
        for f in frags:
            t = f.text
            if isinstance(t, SZ3Str):
                if t.e.get_id() in leafids:
                    lines[-1].append(('leaf', leafids[t.e.get_id()]['kind'], t.e))
                else:
                    lines[-1].append(('ind', None, t.e))
                continue
            parts = re.split(r'(\r\n|\n|\r)', t)
            for p in parts:
                if p in ('\n', '\r', '\r\n'):
                    lines.append([])
                elif p:
                    lines[-1].append(('c', p, None))
        skel = []
        for ln in lines:
            skel.append(''.join((p[1] if p[0] == 'c' else PLACE[p[1]] if p[0] == 'leaf' else '') for p in ln))
        depths, final = expected_depths(skel)
        E.check(final == 0, 'nesting depth is not zero at the end of the text')
        if any(ln for ln in lines):
            E.check(lines[-1] == [] and (len(lines) < 2 or any(p[0] != 'ind' for p in lines[-2])),
                    'non-empty output does not end with exactly one newline')
        for ln, d, sk in zip(lines, depths, skel):
            if d is None:
                # a line without tokens: must be completely empty except the final one (which is empty)
                E.check(all(p[0] == 'ind' for p in ln) and (not ln or ln is lines[-1] or True), 'white-space-only line')
                if ln and ln is not lines[-1]:
                    lead = z3.Concat(*[p[2] for p in ln]) if len(ln) > 1 else ln[0][2]
                    E.check(z3.Length(lead) == 0 if True else None, 'line consisting only of indentation')
                continue
            lead = []
            for p in ln:
                if p[0] == 'ind':
                    lead.append(p[2])
                elif p[0] == 'c' and p[1].strip(' \t') == '':
                    lead.append(z3.StringVal(p[1]))
                else:
                    first = p
                    break
            rest_ws = (first[0] == 'c' and first[1][:1] in (' ', '\t'))
            got = z3.StringVal('') if not lead else (z3.Concat(*lead) if len(lead) > 1 else lead[0])
            exp = z3.StringVal('')
            for _ in range(d):
                exp = z3.Concat(exp, ind) if d else exp
            E.check(z3.And(got == exp, z3.BoolVal(not rest_ws)),
                    'line %r (depth %d) does not start with exactly depth x indent_str' % (sk, d))
        info['lines'] = len(lines)
    E.explore(harness)
    res = dict(text=text, stats=E.stats(), viol=[], incon=[])
    for msg in (E.unsupported + E.errors)[:3]:
        res['incon'].append('%r: %s' % (text, msg))
    if E.bound_hits:
        res['incon'].append('%r: decision bound hit' % text)
    for msg, w in E.violations:
        res['viol'].append((msg, w))
    return res


def concrete_check(text, indent, with_comments=False):
    from calmjs.parse.parsers.es5 import parse
    from calmjs.parse.unparsers.es5 import pretty_print
    out = pretty_print(parse(text, with_comments=with_comments), indent_str=indent)
    return judge_output(out, indent, with_comments)


def judge_output(out, indent, with_comments=False):
    lines = out.split('\n')
    skel = [re.sub(r'"(?:[^"\\]|\\.)*"|\'(?:[^\'\\]|\\.)*\'', "'s'", ln) for ln in lines]
    if with_comments:
        # comment text is blanked in the skeleton (a line inside a multi-line comment is exempt: no token starts it)
        flat = '\n'.join(skel)
        flat = re.sub(r'/\*.*?\*/', lambda m: re.sub(r'[^\n]', ' ', m.group()).replace(' ', 'C', 1) if '\n' not in m.group() else 'C' + re.sub(r'[^\n]', '', m.group()) + 'CONT', flat, flags=re.S)
        flat = re.sub(r'//[^\n]*', 'C', flat)
        skel = flat.split('\n')
    depths, final = expected_depths(skel)
    if final != 0:
        return 'nesting depth %d at the end' % final, out
    if out and (not out.endswith('\n') or out.endswith('\n\n') or out[-2:-1] in (' ', '\t')):
        return 'output does not end with exactly one newline', out
    for ln, d, sk in zip(lines, depths, skel):
        if sk.startswith('CONT'):
            continue          # continuation line of a multi-line comment
        if d is None:
            if ln.strip(' \t') == '' and ln != '':
                return 'line consisting only of white space', out
            continue
        lead = ln[:len(ln) - len(ln.lstrip(' \t'))]
        if lead != indent * d:
            return 'line %r has leading %r, expected %r x %d' % (ln, lead, indent, d), out
    return None, out


COMMENT_SPELLINGS = ['/*c*/', '//c\n', '// y \n', '/* x\t*/', '/*c\nd*/', '//c\r\n', '//c\r', '/*c\r\nd*/']


def _comment_job(chunk):
    bad = []
    n = 0
    for text in chunk:
        toks = text.split(' ')
        if len(toks) > 8:
            continue
        for gap in (0, len(toks) // 2, len(toks) - 1, len(toks)):
            for c in COMMENT_SPELLINGS:
                t2 = ' '.join(toks[:gap]) + ' ' + c + ' '.join(toks[gap:])
                for ind in ('  ', '\t'):
                    try:
                        msg, out = concrete_check(t2, ind, True)
                    except Exception:
                        continue
                    n += 1
                    if msg:
                        bad.append((t2, ind, msg))
    return n, bad[:5]


REUSE_PROGRAMS = ['function f(a) { if (a) { while (a) { a--; } } else { switch (a) { case 1: { a++; } default: ; } } return a; }',
                  'x = { a: function () { try { y(); } catch (e) { z = [1, { b: 2 }]; } finally { w(); } } };',
                  'a = 1;']


def reuse_history(indent, xi, ai, k):
    """plain: one pretty printer object, a first rendering of program xi abandoned after k fragments, then a complete one of ai"""
    from calmjs.parse.parsers.es5 import parse
    from calmjs.parse.unparsers.es5 import pretty_printer
    P = pretty_printer(indent)
    g = P(parse(REUSE_PROGRAMS[xi]))
    for i, f in enumerate(g):
        if i == k:
            break
    g.close()
    out = ''.join(f.text for f in P(parse(REUSE_PROGRAMS[ai])))
    return judge_output(out, indent)


def _reuse_job(args):
    indent, xi, ai = args
    from ..sx import SIntZ
    E = sx.new_engine(max_decisions=2000)

    def harness():
        from calmjs.parse.parsers.es5 import parse
        from calmjs.parse.unparsers.es5 import pretty_printer
        P = pretty_printer(indent)
        k = SIntZ(z3.Int('k'))
        E.solver.add(k.e >= 0, k.e <= 400)
        g = P(parse(REUSE_PROGRAMS[xi]))
        i = 0
        for f in g:
            if k == i:
                break
            i += 1
            if i > 400:
                raise sx.SXBound()
        g.close()
        out = ''.join(f.text for f in P(parse(REUSE_PROGRAMS[ai])))
        msg, _ = judge_output(out, indent)
        E.check(msg is None, 'a pretty printer reused after an abandoned rendering: %s' % msg)
    E.explore(harness)
    return args, E.stats(), E.violations[:1], (E.unsupported + E.errors)[:2]


def replay(d):
    w = d['input']
    if 'reuse' in w:
        msg, out = reuse_history(w['indent'], w['reuse'][0], w['reuse'][1], w['reuse'][2])
        return bool(msg), 'printer reused after abandoning program %d at fragment %d, then program %d -> %r: %s' % (w['reuse'][0], w['reuse'][2], w['reuse'][1], out[:120], msg or 'ok')
    msg, out = concrete_check(w['text'], w['indent'], w.get('with_comments', False))
    return bool(msg), 'source %r, indent %r -> %r: %s' % (w['text'], w['indent'], out, msg or 'ok')


def main():
    run = common.Run('C20', 'other')
    th = run.thorough()
    boot.load_plain()
    texts, space = ppcheck.structure_space(4 if th else 3, th)
    src = boot.scratch_dir()
    sx.install(src)
    boot.warm_tabs()
    from calmjs.parse.lexers.es5 import Lexer
    from calmjs.parse.handlers import core as hcore
    import re as _re
    langs = pp.Langs(Lexer, hcore)

    def m_match(pat, s, *a):
        if isinstance(s, sx.SZ3Str):
            return sx.SBool(z3.InRe(s.e, rx.translate(pat.pattern, pat.flags, langs.A)))
        return pat.match(s, *a)
    sx.METHOD_MODELS[(_re.Pattern, 'match')] = m_match
    nocont = z3.Complement(z3.Concat(z3.Full(rx.RE_SORT), z3.Re(z3.StringVal('\\')), rx.union(rx.lit(c) for c in '\n\r\u2028\u2029'), z3.Full(rx.RE_SORT)))
    langs.STRING = z3.Intersect(langs.STRING, nocont)
    ppcheck._TL['langs'] = langs
    res = common.pmap(run_structure, texts, chunksize=8)
    from .. import replay as rp
    tot = dict(paths=0, reached=0, z3_checks=0, assertions=0, solver_s=0.0)
    samples = []
    pending = {}
    for r in res:
        for k in tot:
            tot[k] += r['stats'][k]
        for m in r['incon']:
            run.inconclusive_(m)
        if len(samples) < 4 and r['stats']['paths'] > 1:
            samples.append({'source': r['text'], 'stats': r['stats']})
        for msg, w in r['viol']:
            ind = pp.z3_literal(w.get('indent', '""'))
            itext = ppcheck.witness_text(r['text'], w)
            key = 'C20: %s' % re.sub(r"line '.*?' \(depth \d+\)", 'a line', msg)
            pending.setdefault(key + ' | ' + r['text'][:40], (key, {'property': 'C20', 'input': {'text': itext, 'indent': ind, 'structure': r['text'], 'law': msg}}))
    for k2, (key, rpd) in list(pending.items())[:40]:
        ok, detail = rp.run_in_subprocess(rpd)
        if ok:
            run.violation(key + ' | ' + rpd['input']['structure'][:60], detail[:500], rpd)
        else:
            run.inconclusive_('solver witness did not reproduce: %s :: %s' % (k2, detail[:300]))
    # ---- replay leg with comments (comment fragments end in / are followed by optional newlines)
    cres = common.pmap(_comment_job, [texts[i::32] for i in range(32)])
    ncom = sum(r[0] for r in cres)
    seenk = set()
    for n, bad in cres:
        for text, ind, msg in bad:
            key = 'C20 comments: %s' % re.sub(r"%r|'.*?'|\d+", '..', msg)[:80]
            if key in seenk:
                continue
            seenk.add(key)
            rpd = {'property': 'C20', 'input': {'text': text, 'indent': ind, 'with_comments': True}}
            ok, detail = rp.run_in_subprocess(rpd)
            if ok:
                run.violation(key, detail[:500], rpd)
            else:
                run.inconclusive_('comment-leg failure did not reproduce: %r %s' % (text, msg))
    run.leg('replay_with_comments', texts=ncom)
    # ---- reuse leg: the law also holds for a printer object that was abandoned mid-way before (symbolic abandon index)
    rres = common.pmap(_reuse_job, [(ind, xi, ai) for ind in ('  ', '\t') for xi in (0, 1) for ai in (0, 1, 2)])
    rtot = dict(paths=0, z3_checks=0, assertions=0)
    for args, st, viols, errs in rres:
        for k in rtot:
            rtot[k] += st[k]
        tot['z3_checks'] += st['z3_checks']
        tot['solver_s'] += st['solver_s']
        if st['unsupported'] or st['errors'] or st['bound_hits'] or st['reached'] == 0:
            run.inconclusive_('reuse harness %r: %r' % (args, errs))
        for msg, w in viols:
            kk = w.get('k', '0')
            rpd = {'property': 'C20', 'input': {'reuse': [args[1], args[2], int(kk) if str(kk).isdigit() else 0], 'indent': args[0]}}
            ok, detail = rp.run_in_subprocess(rpd)
            if ok:
                run.violation('C20: ' + re.sub(r"%r|'.*?'|\d+", '..', msg)[:110], detail[:500], rpd)
            else:
                run.inconclusive_('reuse violation did not reproduce: %s %r' % (msg, rpd['input']))
    run.leg('reuse_after_abandon', **rtot)
    run.coverage.update({
        'explanation': 'real pretty printer under SX with a symbolic indentation string (z3 string over space/tab, length <= 3, empty included) and symbolic '
                       'leaf spellings on every structure of the bounded space; per path z3 decides for every line that its leading text equals '
                       'indent_str x depth (depth from an independent brace/case counter over the output skeleton), final depth 0, one trailing newline.',
        'evaluations': tot['paths'], 'distinct_nontrivial': tot['reached'],
        'rule': 'one evaluation = one SX path (structure x class of indentation strings x layout decisions)',
        'samples': samples, 'structure_space': space, 'queries': tot['z3_checks'], 'solver_s': round(tot['solver_s'], 1),
        'assertions_discharged': tot['assertions'],
        'bounds': {'structures': space, 'indent_str': 'every string over {space, tab} of length <= 3', 'outside': 'comments (C13), multi-line string tokens, deeper programs'},
    })
    run.assumptions += ['depth reference: open braces + 1 inside case/default bodies, computed on the token skeleton of the output']
    return run.finish()
