"""driver shared by C01 (pretty), C02 (minify +- drop_semi) and C20 (indentation): bounded structure space x
symbolic leaf spellings through the real printers (see vplib/pp.py)"""
import os, sys, re, time, json, itertools
import z3
from .. import boot, common, gx, actions, sx, pp, rx
from . import c03 as c03mod

sys.path.insert(0, common.VERIF)
from ref import refscan

MAXLEN = {'Identifier': 3, 'PropIdentifier': 3, 'Number': 4, 'String': 4, 'Regex': 5}


# ------------------------------------------------------------------------------------------ structure space
def structure_space(N, pairs=False):
    """texts: every AUTOSEMI-free accepted token string of length <= N (real tables) + a sentence for every production
    (and, with pairs, for every production-in-production pair), all confirmed by the plain LR driver"""
    p = boot.fresh_parser()
    Tb, G = gx.extract(p)
    sp = actions.spellings(type(p.lexer))
    words = [w for w in gx.enumerate_accepted(Tb, G, N) if 'AUTOSEMI' not in w]
    ctx = c03mod.contexts(G)
    short = {}
    for t in G.terms:
        short[t] = (t,)
    ch = True
    while ch:
        ch = False
        for l, r in G.prods:
            if all(x in short for x in r):
                w = tuple(y for x in r for y in short[x])
                if l not in short or len(w) < len(short[l]):
                    short[l] = w
                    ch = True
    corpus = []
    dropped = 0
    for pi, (l, r) in enumerate(G.prods):
        if l not in ctx:
            continue
        u, v = ctx[l]
        cands = [tuple(u) + tuple(y for x in r for y in short[x]) + tuple(v)]
        if pairs:
            for k, X in enumerate(r):
                if X in G.tset:
                    continue
                for qi, rq in G.byl[X]:
                    mid = tuple(y for x in r[:k] for y in short[x]) + tuple(y for x in rq for y in short[x]) + tuple(y for x in r[k + 1:] for y in short[x])
                    cands.append(tuple(u) + mid + tuple(v))
        for w in cands:
            if 'AUTOSEMI' in w:
                w = tuple('SEMI' if t == 'AUTOSEMI' else t for t in w)
            if gx.lr_run(Tb, list(w)) is None:
                dropped += 1
                continue
            corpus.append(w)
    variants = []
    for w in corpus:
        ids = [i for i, t in enumerate(w) if t == 'ID'][:4]
        for i in ids:
            for k in ('NUMBER', 'STRING', 'REGEX'):
                v = w[:i] + (k,) + w[i + 1:]
                if gx.lr_run(Tb, list(v)) is not None:
                    variants.append(v)
    variants = list(dict.fromkeys(variants))
    if not pairs:
        variants = variants[::4]
    nested = []
    for w in list(words) + [v for v in variants if len(v) <= 6]:
        if w and len(w) <= 6:
            for pre, post in ((('LBRACE',), ('RBRACE',)), (('FUNCTION', 'ID', 'LPAREN', 'RPAREN', 'LBRACE'), ('RBRACE',))):
                v = pre + tuple(w) + post
                if gx.lr_run(Tb, list(v)) is not None:
                    nested.append(v)
    if not pairs:
        nested = nested[::2]
    # statements followed by an empty block and nothing else (found by the N=4 space; kept in the smaller one too)
    extra = [w for w in (('NUMBER', 'SEMI', 'LBRACE', 'RBRACE'), ('RETURN', 'SEMI', 'LBRACE', 'RBRACE'), ('ID', 'SEMI', 'LBRACE', 'RBRACE', 'LBRACE', 'RBRACE'),
                         ('LBRACE', 'ID', 'SEMI', 'LBRACE', 'RBRACE', 'RBRACE'), ('ID', 'SEMI', 'LBRACE', 'RBRACE', 'ID', 'SEMI')) if gx.lr_run(Tb, list(w)) is not None]
    allw = list(dict.fromkeys(list(words) + corpus + variants + nested + extra))
    texts = []
    unlexable = 0
    from calmjs.parse.parsers.es5 import parse as _parse
    for w in allw:
        t = ' '.join(sp[t] for t in w)
        try:
            _parse(t)
        except Exception:
            unlexable += 1      # accepted at token level, but the real lexer does not produce these tokens from the canonical text
            continue
        texts.append(t)
    return texts, dict(not_producible_by_the_lexer=unlexable, accepted_strings=len(words), corpus=len(corpus), corpus_dropped=dropped, literal_kind_variants=len(variants), block_nested=len(nested), total=len(texts), N=N)


# ------------------------------------------------------------------------------------------ per structure
_TL = {}


def make_printer(cfg):
    from calmjs.parse.unparsers import es5 as u
    if cfg[0] == 'pretty':
        return u.pretty_printer(cfg[1])
    if cfg[0] == 'minify':
        return u.minify_printer(drop_semi=cfg[1])
    raise ValueError(cfg)


def norm_repr(tree, cfg):
    """structural fingerprint, positions ignored; for minify: line continuations stripped, stand-alone empty statements dropped"""
    from calmjs.parse.walkers import ReprWalker, Walker
    from calmjs.parse import asttypes
    from calmjs.parse.lexers.es5 import PATT_LINE_CONTINUATION
    if cfg[0] == 'minify':
        for n in [tree] + list(Walker().walk(tree)):
            if isinstance(n, asttypes.String):
                n.value = PATT_LINE_CONTINUATION.sub('', n.value)
            for k, v in list(vars(n).items()):
                if isinstance(v, list) and k in ('_children_list', 'elements') and cfg[1]:
                    v[:] = [x for x in v if not isinstance(x, asttypes.EmptyStatement)]
    return ReprWalker().walk(tree)


def roundtrip(text, cfg, expected_tokens=None):
    """concrete: parse -> print -> parse -> print.  returns (ok, message, output)"""
    from calmjs.parse.parsers.es5 import parse
    from calmjs.parse.exceptions import ECMASyntaxError
    t1 = parse(text)
    printer = make_printer(cfg)
    frs = list(printer(t1))
    out = ''.join(f.text for f in frs)
    try:
        t2 = parse(out)
    except ECMASyntaxError as e:
        return False, 'printed text %r does not parse: %s' % (out, e), out
    r1 = norm_repr(parse(text), cfg)
    r2 = norm_repr(t2, cfg)
    if r1 != r2:
        return False, 'printed text %r re-parses to a different tree' % out, out
    if cfg[0] == 'pretty':
        out2 = ''.join(f.text for f in make_printer(cfg)(parse(out)))
        if out2 != out:
            return False, 'pretty form is not a fix-point: %r -> %r' % (out, out2), out
    toks = [f.text.strip(' \t\r\n') for f in frs if f.text != '' and not pp.is_layout_text(f.text)]
    exp = []
    for t in toks:
        if re.fullmatch(r',+', t) and len(t) > 1:
            exp += list(t)
        else:
            exp.append(t)
    ok, msg = refscan.check_segmentation(out, exp)
    if not ok:
        return False, 'a conforming ES5 scanner does not read the printed text %r as the printed tokens: %s' % (out, msg), out
    return True, 'ok', out


def run_structure(job):
    text, cfg = job
    from calmjs.parse.parsers.es5 import parse
    from calmjs.parse.walkers import Walker
    langs = _TL['langs']
    E = sx.new_engine(max_decisions=600, timeout_ms=20000)
    E.use_cache = True
    rec = {'paths': []}

    def harness():
        tree = parse(text)
        leaves = pp.abstract_leaves(tree, langs, MAXLEN, Walker)
        printer = make_printer(cfg)
        frags = list(printer(tree))
        info = pp.FragInfo(frags, leaves)
        pp.fusion_obligations(E, info, langs)
        pp.newline_hazards(E, info)
        extra = _TL.get('extra_oracle')
        if extra:
            extra(E, frags, info, cfg, tree)
        pm = E.path_model()
        if pm is not None:
            def val(var):
                x = pm.get(str(var))
                return lf_default[str(var)] if x is None else pp.unescape_z3(x.as_string())
            lf_default = {str(lf['var']): lf['orig'] for lf in leaves}
            vals = [val(lf['var']) for lf in leaves]
            outp = ''.join((val(f.text.e) if isinstance(f.text, sx.SZ3Str) else f.text) for f in frags)
            rec['paths'].append((pp.instantiate(text, leaves, vals), outp))
    E.explore(harness)
    res = dict(text=text, cfg=cfg, stats=E.stats(), viol=[], incon=[], replays=0)
    for msg in (E.unsupported + E.errors)[:3]:
        res['incon'].append('%r %r: %s' % (text, cfg, msg))
    if E.bound_hits:
        res['incon'].append('%r %r: decision bound hit' % (text, cfg))
    # per-path replay of the model (in-process; violations are re-confirmed on the plain package by the driver)
    seen = set()
    for itext, predicted in rec['paths']:
        if itext in seen:
            continue
        seen.add(itext)
        res['replays'] += 1
        try:
            ok, msg, out = roundtrip(itext, cfg)
        except Exception as e:
            res['incon'].append('replay of %r crashed: %s: %s' % (itext, type(e).__name__, e))
            continue
        if ok and out != predicted:
            res['incon'].append('SX-predicted output %r differs from the concrete output %r for %r' % (predicted, out, itext))
        if not ok:
            res['viol'].append(('roundtrip', msg, itext))
    for msg, w in E.violations:
        vals = {k: pp.z3_literal(v) for k, v in w.items() if k.startswith('leaf')}
        res['viol'].append(('solver', msg, w))
    res['leafwit'] = None
    return res


def witness_text(text, w):
    """instantiate the structure text with a solver witness {leafK: value}; leaves are numbered in token order"""
    from calmjs.parse.parsers.es5 import parse
    from calmjs.parse.walkers import Walker
    tree = parse(text)
    nodes = [n for n in Walker().walk(tree) if type(n).__name__ in pp.LEAF_TYPES]
    nodes.sort(key=lambda n: n.lexpos)
    out = []
    pos = 0
    for i, n in enumerate(nodes):
        key = 'leaf%d' % i
        if key in w:
            val = pp.z3_literal(w[key])
            out.append(text[pos:n.lexpos])
            out.append(val)
            pos = n.lexpos + len(n.value)
    out.append(text[pos:])
    return ''.join(out)


def concrete_key(itext, cfg):
    """normal form of a violation: the classes of the first adjacent token pair of the printed output that fuses"""
    from calmjs.parse.parsers.es5 import parse
    langs = _TL.get('langs')
    try:
        frs = list(make_printer(cfg)(parse(itext)))
    except Exception as e:
        return 'printer/parse error %s' % type(e).__name__
    toks = [(i, f.text) for i, f in enumerate(frs) if f.text != '' and not pp.is_layout_text(f.text)]

    def cls(t, end):
        c = t[-1] if end else t[0]
        if langs._compiled['NUMBER'].fullmatch(t):
            return 'Number[%s]' % ('integer' if re.fullmatch(r'[0-9]+', t) else 'other')
        if langs._compiled['REGEX'].fullmatch(t) and len(t) > 1:
            return 'Regex'
        if langs._compiled['STRING'].fullmatch(t):
            return 'String'
        if langs._compiled['ID'].fullmatch(t):
            w = 'keyword' if t in langs.Lexer.keywords_dict else 'Identifier'
            return w + ('' if re.match(r'[\w$]', c) else '[%s char outside \\w]' % ('last' if end else 'first'))
        return repr(t)
    for (i, x), (j, y) in zip(toks, toks[1:]):
        sep = ''.join(f.text for f in frs[i + 1:j])
        if sep != '' or x[-1:].isspace() or y[:1].isspace():
            continue
        x, y = x.strip(), y.strip()
        xr = langs._compiled['REGEX'].fullmatch(x) is not None and len(x) > 1
        bad = any(langs.concrete_token_match(x + y[:k], xr) for k in range(1, len(y) + 1))
        if not bad and langs._compiled['NUMBER'].fullmatch(x) and re.match(langs.Lexer.identifier_start + '|[0-9]', y):
            bad = True
        if bad:
            return 'fusion: %s + %s' % (cls(x, True), cls(y, False))
    return None


def replay_generic(d):
    w = d['input']
    cfg = tuple(w['cfg'])
    from calmjs.parse.parsers.es5 import parse
    try:
        parse(w['text'])
    except Exception as e:
        return False, 'the witness source %r is itself not accepted (%s) - harness error, not a violation' % (w['text'], e)
    try:
        ok, msg, out = roundtrip(w['text'], cfg)
    except Exception as e:
        return True, 'source %r under %r: %s: %s' % (w['text'], cfg, type(e).__name__, e)
    return (not ok), 'source %r under %r -> %s' % (w['text'], cfg, msg)


def drive(run, pid, cfgs, N, pairs, keyfn, extra_oracle=None, extra_replay=None):
    boot.load_plain()
    texts, space = structure_space(N, pairs)
    src = boot.scratch_dir()
    sx.install(src)
    boot.warm_tabs()
    from calmjs.parse.lexers.es5 import Lexer
    from calmjs.parse.handlers import core as hcore
    import re as _re

    # model of required_space.match on a (<= 2 char) symbolic string, and of PATT_LINE_CONTINUATION.sub
    def m_match(pat, s, *a):
        if isinstance(s, sx.SZ3Str):
            if not (pat.pattern.startswith('^') and pat.pattern.endswith('$')):
                raise sx.SXUnsupported('match of unanchored pattern on symbolic text')
            return sx.SBool(z3.InRe(s.e, rx.translate(pat.pattern, pat.flags, langs.A)))
        return pat.match(s, *a)

    def m_sub(pat, repl, s, *a):
        if isinstance(s, sx.SZ3Str):
            if pat.pattern == hcore.PATT_LINE_CONTINUATION.pattern and repl == '':
                # leaves range over strings without line continuations inside this harness (stated bound)
                return s
            raise sx.SXUnsupported('re.sub on symbolic text')
        return pat.sub(repl, s, *a)
    sx.METHOD_MODELS[(_re.Pattern, 'match')] = m_match
    sx.METHOD_MODELS[(_re.Pattern, 'sub')] = m_sub
    langs = pp.Langs(Lexer, hcore)
    # string leaves: no line continuation inside the symbolic harness
    nocont = z3.Complement(z3.Concat(z3.Full(rx.RE_SORT), z3.Re(z3.StringVal('\\')), rx.union(rx.lit(c) for c in '\n\r\u2028\u2029'), z3.Full(rx.RE_SORT)))
    langs.STRING = z3.Intersect(langs.STRING, nocont)
    _TL['langs'] = langs
    _TL['extra_oracle'] = extra_oracle
    jobs = [(t, c) for t in texts for c in cfgs]
    res = common.pmap(run_structure, jobs, chunksize=8)
    from .. import replay as rp
    tot = dict(paths=0, reached=0, z3_checks=0, assertions=0, solver_s=0.0)
    replays = 0
    samples = []
    pending = {}
    for r in res:
        for k in tot:
            tot[k] += r['stats'][k]
        replays += r['replays']
        for m in r['incon']:
            run.inconclusive_(m)
        if len(samples) < 5 and r['stats']['paths'] > 1:
            samples.append({'source': r['text'], 'config': list(r['cfg']), 'stats': r['stats']})
        for kind, msg, w in r['viol']:
            itext = w if kind == 'roundtrip' else witness_text(r['text'], w)
            rpd = {'property': pid, 'input': {'text': itext, 'cfg': list(r['cfg']), 'structure': r['text'], 'found_by': kind, 'law': msg}}
            ck = concrete_key(itext, tuple(r['cfg']))
            key = ('%s %s: %s' % (pid, r['cfg'][0], ck)) if ck else keyfn(kind, msg, itext, r['cfg'])
            pending.setdefault(key, rpd)
    from concurrent.futures import ThreadPoolExecutor
    items = list(pending.items())
    with ThreadPoolExecutor(8) as ex:
        outs = list(ex.map(lambda kv: rp.run_in_subprocess(kv[1]), items))
    for (key, rpd), (ok, detail) in zip(items, outs):
        if ok:
            run.violation(key, detail[:500], rpd)
        elif rpd['input']['found_by'] == 'solver':
            run.leg('solver_witnesses_not_reproduced', count=1, last='%s | %s' % (key, detail[:200]))
            run.inconclusive_('solver witness did not reproduce on the plain package: %s :: %s' % (key, detail[:300]))
        else:
            run.inconclusive_('in-process replay failure did not reproduce on the plain package: %s' % key)
    run.coverage.update({
        'explanation': 'Real parser (concrete) on every structure of the bounded space; real %s printers under SX with every leaf spelling '
                       '(Identifier/Number/String/Regex values) a z3 string in its token language (translated from the live Lexer patterns over a '
                       'class alphabet of %d code points); per path z3 decides, for every directly adjacent token pair, that no spelling makes them '
                       'fuse/re-classify (calmjs token languages + ES5 7.8.3 rule) and that no line terminator lands in a restricted production; '
                       'each path model is instantiated and replayed: parse/print/parse tree identity, fix-point, reference ES5 scanner segmentation.' % (
                           pid, len(langs.reps)),
        'evaluations': tot['paths'], 'distinct_nontrivial': tot['reached'],
        'rule': 'one evaluation = one SX path (structure x configuration x one set of layout decisions of the real handlers); non-trivial = reached the obligations',
        'samples': samples, 'structure_space': space, 'configurations': [list(c) for c in cfgs],
        'queries': tot['z3_checks'], 'solver_s': round(tot['solver_s'], 1), 'assertions_discharged': tot['assertions'],
        'path_models_replayed': replays,
        'bounds': {'structures': 'all AUTOSEMI-free accepted token strings of length <= %d + one sentence per production%s' % (N, ' and per production pair' if pairs else ''),
                   'leaf_spellings': 'all strings of the token language with length <= %r; string leaves without line continuations (those are replayed concretely only)' % (MAXLEN,),
                   'outside': 'program shapes not in the space; comments (C13); spellings longer than the bound'},
    })
    run.assumptions += ['leaf abstraction: parser and actions depend on ID/NUMBER/STRING/REGEX spellings only through the token type (C03/C06)',
                        'class alphabet: every character set in the lexer patterns and in required_space is a union of the classes represented',
                        'ref/refscan.py stands for "any conforming ES5 scanner" at replay']
    return tot
