"""C03, leg L - the token languages of the lexer equal the ECMA-262 5.1 lexical grammar.

Deciding step (z3 regular-language queries, unbounded string length): for every value-carrying token kind K in
{ID (as IdentifierName), NUMBER, STRING, REGEX, LINE_COMMENT, BLOCK_COMMENT}
    exists s:  s in L(calmjs pattern of K)  xor  s in L(ES5 production of K),   s not in DontCare(K)
where the calmjs language is translated from the LIVE pattern object of the working tree (sre parse tree -> z3 regex, class
alphabet computed from all patterns involved) and the ES5 language from ref/es5_lexical.py.  DontCare = Annex B forms.
Families of deviation that are recorded as known findings are excluded by their (over-approximating) description
language so that any OTHER deviation still yields a witness; each listed family is probed separately for still being there.
Every witness is replayed: through Python's re on both patterns (independent of z3 and of the translator) and through the
real Lexer (the text must / must not come out as exactly one token of that kind).
Finite parts (punctuators, reserved words, white space) are compared as sets.
"""
import re, sys, time, unicodedata
import z3
from .. import boot, common, rx, pp
sys.path.insert(0, common.VERIF)

ANY = r'[\x00-\U0010ffff]'
# families: (key, kind, direction, description language (python regex, fullmatch), what)
FAMILIES = [
    ('C03 L: ID es5-only: unicode escape sequence in an identifier', 'ID', 'es5_only', ANY + r'*\\' + ANY + '*',
     r'an IdentifierName containing a \uXXXX escape (ES5 7.6) is not lexed as an identifier: the backslash of `\\u0061bc` is an illegal character'),
    ('C03 L: ID es5-only: ZWNJ / ZWJ in an identifier', 'ID', 'es5_only', ANY + r'*[\u200c\u200d]' + ANY + '*',
     'U+200C / U+200D are IdentifierPart in ES5 7.6 and are not accepted inside an identifier'),
    ('C03 L: REGEX es5-only: flags other than ASCII letters and digits', 'REGEX', 'es5_only', ANY + r'*/[^/]*[^a-zA-Z0-9/][^/]*',
     'RegularExpressionFlags is IdentifierPart* (7.8.5): `/a/$`, `/a/_` are one token in ES5 and a regex followed by an identifier here'),
]


def calm_patterns(Lexer):
    return {'ID': (Lexer.identifier, 0), 'NUMBER': (Lexer.t_NUMBER, re.VERBOSE), 'STRING': (Lexer.string, re.VERBOSE),
            'REGEX': (Lexer.t_regex_REGEX, re.VERBOSE), 'LINE_COMMENT': (Lexer.t_LINE_COMMENT, 0), 'BLOCK_COMMENT': (Lexer.t_BLOCK_COMMENT, 0)}


def ref_patterns():
    from ref import es5_lexical as L
    from calmjs.parse import unicode_chars as uc
    return L, L.patterns(uc.LETTER, uc.COMBINING_MARK, uc.DIGIT, uc.CONNECTOR_PUNCTUATION)


def lex_single(text, kind):
    """does the real Lexer read `text` as exactly one token of `kind` spanning the whole text?"""
    from calmjs.parse.lexers.es5 import Lexer
    lx = Lexer(yield_comments=True)
    lx.input(text)
    try:
        toks = [(t.type, t.value) for t in lx]
    except Exception as e:
        return False, '%s: %s' % (type(e).__name__, e)
    ok = len(toks) == 1 and toks[0][1] == text and (toks[0][0] == kind or (kind == 'ID' and toks[0][0] in Lexer.keywords))
    return ok, repr(toks[:4])


def judge(kind, text):
    """(calmjs_single_token, es5_member, dontcare, detail) - no z3 involved"""
    L, ref = ref_patterns()
    pat, dc = ref[kind]
    es5 = re.fullmatch(pat, text) is not None
    dcare = dc is not None and re.fullmatch(dc, text) is not None
    ok, detail = lex_single(text, kind)
    return ok, es5, dcare, detail


def replay(d):
    w = d['input']
    ok, es5, dcare, detail = judge(w['kind'], w['text'])
    if dcare:
        return False, 'text %r is an Annex B form (not judged)' % w['text']
    bad = ok != es5
    return bad, '%s %r: ES5 7.x %s it, the real lexer reads %s' % (w['kind'], w['text'], 'derives' if es5 else 'does not derive', detail)


def run_leg(run):
    from calmjs.parse.lexers.es5 import Lexer
    from .. import replay as rp
    L, ref = ref_patterns()
    calm = calm_patterns(Lexer)
    sets = []
    for k, (p, f) in calm.items():
        sets += rx.collect_sets(p, f)
    for k, (p, dc) in ref.items():
        sets += rx.collect_sets(p, 0)
        if dc:
            sets += rx.collect_sets(dc, 0)
    for fam in FAMILIES:
        sets += rx.collect_sets(fam[3], 0)
    A = rx.Alphabet(rx.class_representatives(sets))
    known_keys = {f['key'] for f in run.known}
    st = dict(queries=0, solver_s=0.0, sat=0, unsat=0, kinds=len(calm))
    s = z3.String('s')

    def solve(extra):
        S = z3.Solver()
        S.set('timeout', 120000)
        S.add(z3.InRe(s, A.sigma_star()), *extra)
        t = time.time()
        r = S.check()
        st['queries'] += 1
        st['solver_s'] += time.time() - t
        if r == z3.sat:
            st['sat'] += 1
            return pp.z3_literal(S.model()[s])
        if r == z3.unsat:
            st['unsat'] += 1
            return None
        raise common.HarnessError('z3 unknown on a regular-language query')

    for kind in calm:
        p, f = calm[kind]
        rpat, dc = ref[kind]
        a = rx.translate(p, f, A, erase_lookaround=True)       # the only look-around is \r(?!\n)|\r\n under a star: language unchanged
        b = rx.translate(rpat, 0, A)
        base = [z3.Not(z3.InRe(s, rx.translate(dc, 0, A)))] if dc else []
        for direction, (x, y) in (('calmjs_only', (a, b)), ('es5_only', (b, a))):
            q = base + [z3.InRe(s, x), z3.Not(z3.InRe(s, y))]
            fams = [fm for fm in FAMILIES if fm[1] == kind and fm[2] == direction]
            for fm in fams:
                fl = z3.InRe(s, rx.translate(fm[3], 0, A))
                if fm[0] in known_keys:
                    wit = solve(q + [fl])
                    if wit is not None:
                        okl, es5, dcare, detail = judge(kind, wit)
                        if okl != es5 and not dcare:
                            run.known_hit[fm[0]] = fm[4]
                    q = q + [z3.Not(fl)]
            wit = solve(q)
            if wit is None:
                continue
            key = None
            for fm in fams:
                if fm[0] not in known_keys and re.fullmatch(fm[3], wit):
                    key = fm[0]
            key = key or 'C03 L: %s %s: %s' % (kind, direction.replace('_', '-'), re.sub(r'[a-zA-Z]', 'a', re.sub(r'[0-9]', '0', wit))[:40])
            rpd = {'property': 'C03', 'input': {'claim': 'lexical', 'kind': kind, 'direction': direction, 'text': wit}}
            ok, detail = rp.run_in_subprocess(rpd)
            if ok:
                run.violation(key, detail[:400], rpd)
            else:
                run.inconclusive_('lexical witness did not reproduce (translator or reference error?): %s %r | %s' % (kind, wit, detail[:200]))
    # finite parts
    fin = {}
    punct = set()
    for name in Lexer.tokens:
        pat = getattr(Lexer, 't_' + name, None)
        if isinstance(pat, str) and name not in ('NUMBER', 'LINE_COMMENT', 'BLOCK_COMMENT', 'LINE_TERMINATOR'):
            lit_ = re.sub(r'\\(.)', r'\1', pat)
            if re.fullmatch(pat, lit_):
                punct.add(lit_)
    fin['punctuators'] = sorted(punct ^ set(L.PUNCTUATORS))
    fin['reserved_words'] = sorted(set(Lexer.keywords_dict) ^ set(L.RESERVED))
    zs = {chr(c) for c in range(0x110000) if unicodedata.category(chr(c)) == 'Zs'} | set(L.WHITESPACE_FIXED)
    fin['white_space'] = sorted('U+%04X' % ord(c) for c in (set(Lexer.t_ignore) ^ zs) - {'\u180e'})     # U+180E left Zs in Unicode 6.3: not judged
    # non-ASCII identifier classes: a code point (BMP) that is a letter / mark / digit / connector both in Unicode 3.2 (ES5: "3.0 or
    # later") and in this Python's Unicode database must be accepted in that role; U+17B4/5 were format characters in between
    fin['identifier_characters'] = unicode_class_gaps()
    for name, diff in fin.items():
        if diff:
            rpd = {'property': 'C03', 'input': {'claim': 'lexical_set', 'set': name, 'difference': diff}}
            ok, detail = rp.run_in_subprocess(rpd)
            if ok:
                run.violation('C03 L: %s differ: %s' % (name, ' '.join(diff)[:120]), detail[:400], rpd)
            else:
                run.inconclusive_('finite lexical set %s: %s' % (name, detail[:200]))
    st['solver_s'] = round(st['solver_s'], 2)
    st['alphabet'] = len(A.points)
    run.leg('L_lexical', **st)
    return st


UCLASSES = [('start', ('Lu', 'Ll', 'Lt', 'Lm', 'Lo', 'Nl')), ('part', ('Mn', 'Mc')), ('part', ('Nd',)), ('part', ('Pc',))]


def _ranges(cs):
    out = []
    for c in sorted(cs):
        if out and c == out[-1][1] + 1:
            out[-1][1] = c
        else:
            out.append([c, c])
    return out


def unicode_class_gaps():
    from calmjs.parse.lexers.es5 import Lexer
    old = unicodedata.ucd_3_2_0
    start = re.compile(Lexer.identifier_start)
    ident = re.compile(Lexer.identifier)
    gaps = []
    for role, cats in UCLASSES:
        miss = set()
        for c in range(0x80, 0x10000):
            if 0xD800 <= c <= 0xDFFF or c in (0x17B4, 0x17B5):
                continue
            ch = chr(c)
            if old.category(ch) in cats and unicodedata.category(ch) in cats:
                ok = start.fullmatch(ch) if role == 'start' else ident.fullmatch('a' + ch)
                if not ok:
                    miss.add(c)
        for a, b in _ranges(miss):
            gaps.append('%s:%s:U+%04X-U+%04X' % (role, '/'.join(cats), a, b))
    # and no ES5 white space or line terminator character may be an identifier character
    from ref import es5_lexical as L
    ws = {c for c in range(0x10000) if not 0xD800 <= c <= 0xDFFF and (unicodedata.category(chr(c)) in ('Zs', 'Zl', 'Zp') or chr(c) in L.WHITESPACE_FIXED + '\n\r')}
    inside = {c for c in ws if ident.fullmatch('a' + chr(c)) or start.fullmatch(chr(c))}
    for a, b in _ranges(inside):
        gaps.append('white-space-in-identifier:Zs/Zl/Zp:U+%04X-U+%04X' % (a, b))
    return gaps


def replay_set(d):
    from calmjs.parse.lexers.es5 import Lexer
    from ref import es5_lexical as L
    w = d['input']
    bad = []
    for item in w['difference']:
        if w['set'] == 'reserved_words':
            if (item in Lexer.keywords_dict) != (item in L.RESERVED):
                bad.append(item)
        elif w['set'] == 'punctuators':
            ok, detail = lex_single(item, None)
            lx = Lexer()
            lx.input(item)
            try:
                toks = [t.value for t in lx]
            except Exception:
                toks = None
            if (toks == [item]) != (item in L.PUNCTUATORS):
                bad.append(item)
        elif w['set'] == 'identifier_characters' and item.startswith('white-space-in-identifier'):
            a, b = [int(x[2:], 16) for x in item.split(':')[2].split('-')]
            for c in sorted({a, b}):
                ok, detail = lex_single('a' + chr(c) + 'b', 'ID')
                if ok:
                    bad.append('U+%04X (%s) is ES5 white space but `a<U+%04X>b` is read as one identifier' % (c, unicodedata.name(chr(c), '?'), c))
        elif w['set'] == 'identifier_characters':
            role, cats, rng = item.split(':')
            a, b = [int(x[2:], 16) for x in rng.split('-')]
            for c in sorted({a, (a + b) // 2, b}):
                text = chr(c) if role == 'start' else 'a' + chr(c)
                ok, detail = lex_single(text, 'ID')
                if not ok and unicodedata.category(chr(c)) in cats.split('/'):
                    bad.append('U+%04X (%s, %s) is not accepted as identifier %s: %s' % (c, unicodedata.category(chr(c)), unicodedata.name(chr(c), '?'), role, detail))
        else:
            c = chr(int(item[2:], 16))
            lx = Lexer()
            lx.input('a' + c + 'b')
            try:
                toks = [t.value for t in lx]
            except Exception:
                toks = None
            skipped = toks == ['a', 'b']
            want = unicodedata.category(c) == 'Zs' or c in L.WHITESPACE_FIXED
            if skipped != want:
                bad.append(item)
    return bool(bad), 'lexical set %s: the real lexer and ES5 clause 7 disagree on %r' % (w['set'], bad)


# ------------------------------------------------------------------------------------------ leg G: contextual get / set
K_G_WORD = 'C03 G: get/set used as an ordinary identifier directly before a word token (in, instanceof, another name after a line break) is lexed as an accessor introducer'
K_G_NAME = 'C03 G: an accessor whose property name is a string or numeric literal is rejected'


def g_texts(Tb, G, sp, words):
    """(kind, token kinds, text, reference token kinds): `get`/`set` as an ordinary identifier in every ID position of the given
    accepted token strings, and accessors with every kind of property name"""
    out = []
    for w in words:
        ids = [i for i, t in enumerate(w) if t == 'ID']
        for i in ids[:3]:
            for name in ('get', 'set'):
                toks = [sp[t] for t in w]
                toks[i] = name
                out.append(('name', tuple(w), ' '.join(toks), tuple(w), i, name))
        for i, t in enumerate(w):
            if t in ('GETPROP', 'SETPROP') and i + 1 < len(w) and w[i + 1] == 'ID':
                for alt, spell in (('STRING', "'s'"), ('NUMBER', '1'), ('IF', 'if'), ('ID', 'get')):
                    toks = [sp[x] for x in w]
                    toks[i + 1] = spell
                    w2 = tuple(w[:i + 1]) + (alt,) + tuple(w[i + 2:])
                    out.append(('accessor', tuple(w), ' '.join(toks), w2, i + 1, spell))
                    if alt in ('STRING', 'NUMBER'):
                        # no white space is needed between get/set and a string or numeric name (`.5` for the number)
                        sp2 = "'s'" if alt == 'STRING' else '.5'
                        text = ' '.join(toks[:i]) + ' ' + toks[i] + sp2 + ' '.join(toks[i + 2:])
                        out.append(('accessor', tuple(w), text, w2, i + 1, spell))
    return out


def g_judge(kind, text, plain_text, name, plain_name):
    """real parse of the text vs real parse of the same text with an ordinary spelling"""
    from calmjs.parse.parsers.es5 import parse
    from calmjs.parse.walkers import ReprWalker
    try:
        ref = ReprWalker().walk(parse(plain_text))
    except Exception as e:
        return None
    try:
        got = ReprWalker().walk(parse(text))
    except Exception as e:
        return 'rejected: %s' % e
    if kind == 'name' and got.replace("value='%s'" % name, "value='%s'" % plain_name) != ref:
        return 'different tree'
    return None


def replay_g(d):
    w = d['input']
    msg = g_judge(w['kind'], w['text'], w['plain_text'], w['name'], w['plain_name'])
    return bool(msg), 'text %r (ES5 reads it like %r, which is accepted): %s' % (w['text'], w['plain_text'], msg or 'same tree')


_GL = {}


def _gjob(chunk):
    sp = _GL['sp']
    out = []
    for item in chunk:
        kind, w, text, w2, i, name = item
        msg = g_judge(kind, text, ' '.join(sp[t] for t in w), name, sp['ID'])
        if msg:
            out.append((item, msg))
    return out


def run_leg_g(run, Tb, G, sp, ref, words, ref_accepts):
    from .. import replay as rp
    items = g_texts(Tb, G, sp, words)
    n = 0
    pending = {}
    refcache = {}
    _GL['sp'] = sp
    boot.warm_tabs()            # the default table modules must exist before workers fork (they would race to write them)
    res = common.pmap(_gjob, [items[k::64] for k in range(64)])
    flagged = [x for chunk in res for x in chunk]
    n = len(items)
    for (kind, w, text, w2, i, name), msg in flagged:
        plain = ' '.join(sp[t] for t in w)
        if kind == 'accessor':
            # is the variant ES5 at all?  (reference grammar on the token string with the alternative property name)
            if w2 not in refcache:
                refcache[w2] = ref_accepts(list(w2), Tb, ref)
            if not refcache[w2]:
                continue
            key = K_G_NAME if name in ("'s'", '1') else 'C03 G: accessor named %s rejected' % name
        else:
            nxt = w[i + 1] if i + 1 < len(w) else None
            key = K_G_WORD if nxt in ('IN', 'INSTANCEOF') else 'C03 G: %s as an identifier before %s: %s' % (name, nxt, msg[:40])
        pending.setdefault(key, {'property': 'C03', 'input': {'claim': 'contextual', 'kind': kind, 'text': text, 'plain_text': plain, 'name': name, 'plain_name': sp['ID']}})
    for key, rpd in pending.items():
        ok, detail = rp.run_in_subprocess(rpd)
        if ok:
            run.violation(key, detail[:400], rpd)
        else:
            run.inconclusive_('contextual get/set difference did not reproduce: %s' % key)
    run.leg('G_contextual_get_set', texts=n)
    return n


# ------------------------------------------------------------------------------------------ leg H: acceptance does not depend on what was parsed before
H_TEXTS = ['x = a', 'f()', '{}', 'a.', '/re/.test(x)', '/a/g', 'if (x) y', 'with (o) p', 'a\nb\nc', '@', 'x = 1 /', 'return', '(', 'a ++', "'s' +",
           'var get = 1', 'x = {get a(){}}', 'a = b\n/c/g', 'function f(){}', 'do ; while (a)']


def h_verdict(text):
    from calmjs.parse.parsers.es5 import parse
    from calmjs.parse.walkers import ReprWalker
    try:
        return ReprWalker().walk(parse(text), pos=True)
    except Exception as e:
        return '%s: %s' % (type(e).__name__, e)


def h_pairs():
    """(first, second, verdict of second after first, verdict of second alone in a fresh interpreter state) for every pair that differs"""
    import subprocess, json, os
    code = ("import sys, json\nsys.path.insert(0, %r)\nfrom vplib import boot\nboot.load_plain()\nfrom vplib.checks import c03lex\n"
            "print(json.dumps(c03lex.h_verdict(json.loads(sys.argv[1]))))\n") % common.VERIF
    env = dict(os.environ, CALMJS_VERIF_SCRATCH=boot.scratch_dir())
    alone = {}
    for t in H_TEXTS:
        r = subprocess.run([sys.executable, '-c', code, json.dumps(t)], capture_output=True, text=True, env=env, cwd=common.VERIF)
        if r.returncode != 0:
            raise common.HarnessError('history probe failed: %s' % r.stderr[-300:])
        alone[t] = json.loads(r.stdout.strip().splitlines()[-1])
    diffs = []
    for a in H_TEXTS:
        for b in H_TEXTS:
            h_verdict(a)
            got = h_verdict(b)
            if got != alone[b]:
                diffs.append((a, b, got, alone[b]))
    return diffs


def replay_h(d):
    w = d['input']
    h_verdict(w['first'])
    got = h_verdict(w['second'])
    return got != w['alone'], 'parse(%r) after parse(%r) gives %s; as the first parse of a process it gives %s' % (w['second'], w['first'], got[:160], w['alone'][:160])


def run_leg_h(run):
    from .. import replay as rp
    diffs = h_pairs()
    seen = set()
    for a, b, got, alone in diffs:
        key = 'C03 H: the result of parse() depends on the text parsed before (%s -> %s)' % ('error' if ': ' in got[:40] and got[:1] != '<' else 'tree', 'error' if alone[:1] != '<' else 'tree')
        if key in seen:
            continue
        seen.add(key)
        rpd = {'property': 'C03', 'input': {'claim': 'history', 'first': a, 'second': b, 'alone': alone}}
        ok, detail = rp.run_in_subprocess(rpd)
        if ok:
            run.violation(key, detail[:400], rpd)
        else:
            run.inconclusive_('history dependence did not reproduce: %r then %r' % (a, b))
    run.leg('H_history_independence', pairs=len(H_TEXTS) ** 2, texts=len(H_TEXTS))


# ------------------------------------------------------------------------------------------ 7.8.3: what may follow a numeric literal
K_783 = 'C03 L: a NumericLiteral may be immediately followed by an IdentifierStart or a DecimalDigit (ES5 7.8.3 forbids it)'


def n783_texts():
    nums = ['3', '3.', '.5', '1e5', '0x1f', '0', '10']
    tails = ['in [ ]', 'instanceof a', 'g', '$', '_b']        # g: not a hex digit, not an exponent marker
    return [(nn + t + ' ;', nn + ' ' + t + ' ;') for nn in nums for t in tails]


def run_leg_783(run):
    """the source character right after a NumericLiteral must not be an IdentifierStart or DecimalDigit: the fused spelling is not
    derivable, whatever the spaced spelling parses to"""
    from .. import replay as rp
    from calmjs.parse.parsers.es5 import parse
    bad = []
    n = 0
    for fused, spaced in n783_texts():
        n += 1
        try:
            parse(fused)
            bad.append(fused)
        except Exception:
            pass
    if bad:
        rpd = {'property': 'C03', 'input': {'claim': 'n783', 'text': bad[0], 'all': bad[:12]}}
        ok, detail = rp.run_in_subprocess(rpd)
        if ok:
            run.violation(K_783, detail[:400], rpd)
        else:
            run.inconclusive_('7.8.3 probe did not reproduce')
    run.leg('L_783_after_number', texts=n, accepted_although_not_derivable=len(bad))


def replay_783(d):
    from calmjs.parse.parsers.es5 import parse
    acc = []
    for t in d['input']['all']:
        try:
            parse(t)
            acc.append(t)
        except Exception:
            pass
    return bool(acc), 'accepted although a NumericLiteral is immediately followed by an IdentifierStart / digit: %r' % acc[:6]
