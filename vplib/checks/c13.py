"""C13 - comment capture is faithful and does not perturb the parse.

Leg S (SX, real Lexer wrapper on raw tokens of symbolic kind): with comment items inserted at any <= 2 gaps of <= n real
tokens, and with_comments off or on, the stream of real tokens (kinds, AUTOSEMI insertions, DIV/REGEX faces) equals the
stream without the comment items; no comment is handed to more than one token.
Leg T (replay): structures x every gap x comment kinds (block, line+LF/CR/CRLF, multi-line block): the tree with capture
equals the tree without and the tree of the comment-free text; every attached comment is verbatim source text at its
recorded position, in source order per node, none attached twice; pretty-printing the captured tree gives text that
re-parses (with capture) to the same tree carrying the same comments in the same traversal order.
"""
import re, sys, itertools
import z3
from .. import boot, common, sx, rawsx, gx, actions
from . import lexsx, c03 as c03mod, c11 as c11mod
sys.path.insert(0, common.VERIF)
from ref import refscan

COMMENTS = ['/*c*/', '//c\n', '//c\r\n', '//c\r', '/*c\nd*/', '/* x */', '// y \n', '/***/', '/* ** x **/']
K_RESTRICTED = 'C13: a comment attached to the operand of return/throw/break/continue is printed on its own line, splitting the restricted production'
K_NOT_RECAPTURED = 'C13: a captured comment is printed at a place where capture does not attach it again when the output is re-parsed'


def tree_repr(t):
    from calmjs.parse.walkers import ReprWalker
    return ReprWalker().walk(t, omit=('lexpos', 'lineno', 'colno', 'rowno', 'comments'))


def comments_of(tree):
    from calmjs.parse.walkers import Walker
    out = []
    for n in [tree] + list(Walker().walk(tree)):
        c = getattr(n, 'comments', None)
        if c is not None:
            out += [x.value for x in c]      # flat sequence in traversal order (the owner may legitimately change on re-parse)
    return out


def check_text(text, plain):
    """returns message or None"""
    from calmjs.parse.parsers.es5 import parse
    from calmjs.parse.walkers import Walker
    from calmjs.parse.unparsers.es5 import pretty_print
    try:
        ref = tree_repr(parse(plain))
    except Exception as e:
        return None
    try:
        t0 = parse(text)
    except Exception as e:
        return 'text with comments rejected without capture: %s' % e
    try:
        t1 = parse(text, with_comments=True)
    except Exception as e:
        return 'text with comments rejected with capture: %s' % e
    if tree_repr(t0) != ref:
        return 'comments change the tree (capture off)'
    if tree_repr(t1) != ref:
        return 'comments change the tree (capture on)'
    seen = []
    for n in [t1] + list(Walker().walk(t1)):
        c = getattr(n, 'comments', None)
        if c is None:
            continue
        last = -1
        for x in c:
            if x.lexpos is None or text[x.lexpos:x.lexpos + len(x.value)] != x.value:
                return 'attached comment %r is not the source text at its recorded offset %r' % (x.value, x.lexpos)
            if (x.lineno, x.colno) != c11mod.linecol(text, x.lexpos):
                return 'attached comment %r records %s:%s, it stands at %r' % (x.value, x.lineno, x.colno, c11mod.linecol(text, x.lexpos))
            if not re.fullmatch(r'//[^\n\r\u2028\u2029]*|/\*.*?\*/', x.value, re.S):
                return 'attached comment %r is not a verbatim ES5 comment' % x.value
            if x.lexpos <= last:
                return 'comments of a node not in source order'
            last = x.lexpos
            if x.lexpos in seen:
                return 'comment at offset %d attached twice' % x.lexpos
            seen.append(x.lexpos)
    # printing (only judged when the comment-free program itself survives print/re-parse: that is C01's subject)
    try:
        if tree_repr(parse(pretty_print(parse(plain)))) != ref:
            return None
    except Exception:
        return None
    # the minifier has no comment handlers: a captured tree minifies to the text of the comment-free tree
    from calmjs.parse.unparsers.es5 import minify_print
    try:
        mo, mp = minify_print(t1), minify_print(parse(plain))
    except Exception as e:
        return 'minifying a tree with captured comments raises %s: %s' % (type(e).__name__, e)
    if mo != mp:
        return 'minified text of the tree with captured comments %r differs from that of the comment-free tree %r' % (mo, mp)
    out = pretty_print(t1)
    try:
        t2 = parse(out, with_comments=True)
    except Exception as e:
        return 'pretty-printed text with comments %r does not parse: %s' % (out, e)
    if tree_repr(t2) != ref:
        return 'pretty-printed text with comments %r re-parses to a different tree' % out
    # "an ES5 parser": no line terminator may separate return/throw/break/continue from its operand (7.9.1), whatever this
    # parser makes of it
    i = 0
    state = None
    while i < len(out):
        kind, e = refscan.next_element(out, i, False)
        if kind is None:
            break
        tok = out[i:e]
        if kind == 'id' and tok in ('return', 'throw', 'break', 'continue') and not out[:i].rstrip().endswith('.'):
            state = 'after'
            sawlt = False
        elif state == 'after':
            if kind == 'lt' or (kind == 'comment' and any(c in tok for c in '\n\r')):
                sawlt = True
            elif kind in ('ws', 'comment'):
                pass
            else:
                if sawlt and tok not in (';', '}') and any(x.expr is not None for x in [n for n in Walker().walk(t1) if type(n).__name__ in ('Return', 'Throw')] ) :
                    return 'pretty-printed text %r: a line terminator separates %s from its operand (a conforming parser ends the statement there)' % (out, 'a restricted keyword')
                state = None
        i = e
    if comments_of(t2) != comments_of(t1):
        if any(c not in out for c in comments_of(t1)):
            return 'printer drops a captured comment: text %r lacks one of %r' % (out, comments_of(t1))
        return 'pretty-printed text %r carries comments %r, the tree had %r' % (out, comments_of(t2), comments_of(t1))
    return None


def classify(msg, w, gap):
    nxt = w[gap] if gap < len(w) else None
    prev = w[gap - 1] if gap > 0 else None
    if 're-parses to a different tree' in msg or 'does not parse' in msg or 'carries comments' in msg:
        if prev in ('RETURN', 'THROW', 'BREAK', 'CONTINUE'):
            return K_RESTRICTED
    if 'a line terminator separates' in msg:
        return K_RESTRICTED
    if 'carries comments' in msg:
        return K_NOT_RECAPTURED
    return 'C13 T: %s (comment between %s and %s)' % (re.sub(r"%r|'.*?'", '..', msg)[:90], prev, nxt)


def _tjob(chunk):
    sp = _TL['sp']
    bad = []
    n = 0
    for w in chunk:
        toks = [sp[t] for t in w]
        plain = ' '.join(toks)
        for gap in range(len(toks) + 1):
            for c in COMMENTS:
                # a line terminator inside/after the comment may legitimately change the parse after a restricted keyword, before ++/--
                # or where it triggers semicolon insertion: only placements that keep the token stream are checked
                lt = any(ch in c for ch in '\n\r')
                if lt and gap > 0 and w[gap - 1] in ('RETURN', 'THROW', 'BREAK', 'CONTINUE'):
                    continue
                if lt and gap < len(w) and w[gap] in ('PLUSPLUS', 'MINUSMINUS'):
                    continue
                text = ' '.join(toks[:gap]) + (' ' if gap else '') + c + ' '.join(toks[gap:])
                if lt:
                    # the reference is the same text with the comment replaced by its line terminator
                    plain2 = ' '.join(toks[:gap]) + (' ' if gap else '') + '\n' + ' '.join(toks[gap:])
                else:
                    plain2 = plain
                n += 1
                try:
                    msg = check_text(text, plain2)
                except Exception as e:
                    msg = 'exception %s: %s' % (type(e).__name__, e)
                if msg:
                    bad.append((w, gap, c, text, plain2, msg))
    return n, bad


def replay_raw_comments(w):
    from . import c05 as c05mod
    p = boot.fresh_parser()
    sp = actions.spellings(type(p.lexer))
    ka = w['raw_kinds']
    kb = [k for k in ka if k not in ('LINE_COMMENT', 'BLOCK_COMMENT', 'BLOCK_COMMENT_ML')]
    spell = dict(c05mod.RAW_SPELL, DIV='/', LINE_COMMENT='//c')
    # a line comment runs to the end of the line: the raw model lets the next item follow directly, the text needs what the raw
    # sequence has next to be a terminator or the end (otherwise the witness is not realisable as text)
    for i, k in enumerate(ka[:-1]):
        if k == 'LINE_COMMENT' and ka[i + 1] != 'LINE_TERMINATOR':
            return False, 'raw sequence %r is not realisable as text (line comment not followed by a terminator)' % (ka,)
    ta = ' '.join(spell.get(k, sp.get(k, k)) for k in ka)
    tb = ' '.join(spell.get(k, sp.get(k, k)) for k in kb)
    wc = w.get('with_comments', False)
    a, b = c05mod.lexer_types(ta, wc), c05mod.lexer_types(tb, wc)
    return a != b, 'with_comments=%r: %r lexes to %r, the comment-free %r to %r' % (wc, ta, a, tb, b)


def replay(d):
    w = d['input']
    if 'raw_kinds' in w:
        return replay_raw_comments(w)
    try:
        msg = check_text(w['text'], w['plain'])
    except Exception as e:
        msg = 'exception %s: %s' % (type(e).__name__, e)
    return bool(msg), 'text %r: %s' % (w['text'], msg or 'ok')


_TL = {}


def _sjob(args):
    nreal, placement = args
    E, st = lexsx.run(lexsx.h_comments(_TL['Lexer'], _TL['dom'], nreal, placement), max_decisions=60000)
    return args, st, E.violations[:2], (E.unsupported + E.errors)[:2]


def main():
    run = common.Run('C13', 'other')
    th = run.thorough()
    boot.load_plain()
    boot.warm_tabs()
    p = boot.fresh_parser()
    Tb, G = gx.extract(p)
    sp = actions.spellings(type(p.lexer))
    from . import c04 as c04mod
    structs = [w for w in c04mod.structures(Tb, G, sp, False) if len(w) <= (12 if th else 9)]
    structs += [w for w in gx.enumerate_accepted(Tb, G, 3) if 'AUTOSEMI' not in w and w]
    structs = list(dict.fromkeys(structs))
    if not th:
        structs = structs[::7]
    # one sentence per production (every node kind and every definition with a CommentsAttr is printed at least once)
    from . import ppcheck
    ctx = c03mod.contexts(G)
    short = {t: (t,) for t in G.terms}
    ch = True
    while ch:
        ch = False
        for l, r in G.prods:
            if all(x in short for x in r):
                wv = tuple(y for x in r for y in short[x])
                if l not in short or len(wv) < len(short[l]):
                    short[l] = wv
                    ch = True
    for l, r in G.prods:
        if l in ctx:
            u, v = ctx[l]
            w = tuple(u) + tuple(y for x in r for y in short[x]) + tuple(v)
            w = tuple('SEMI' if t == 'AUTOSEMI' else t for t in w)
            if w and len(w) <= 14 and gx.lr_run(Tb, list(w)) is not None:
                structs.append(w)
    # get / set as ordinary names and as accessor introducers (contextual tokens: the lexer decides by looking ahead over layout)
    sp = dict(sp, ID_GET='get', ID_SET='set')
    structs += [('ID', 'EQ', 'LBRACE', 'ID_GET', 'COLON', 'NUMBER', 'COMMA', 'ID_SET', 'COLON', 'NUMBER', 'RBRACE', 'SEMI'),
                ('ID', 'EQ', 'LBRACE', 'ID_GET', 'ID', 'LPAREN', 'RPAREN', 'LBRACE', 'RBRACE', 'COMMA', 'ID_SET', 'ID', 'LPAREN', 'ID', 'RPAREN', 'LBRACE', 'RBRACE', 'RBRACE', 'SEMI'),
                ('ID_GET', 'EQ', 'ID_SET', 'SEMI'), ('ID', 'PERIOD', 'ID_GET', 'LPAREN', 'ID_SET', 'RPAREN', 'SEMI'),
                ('ID', 'EQ', 'LBRACE', 'ID_GET', 'ID_GET', 'LPAREN', 'RPAREN', 'LBRACE', 'RBRACE', 'RBRACE', 'SEMI'),
                ('ID', 'EQ', 'ID_GET', 'PLUS', 'ID_SET', 'SEMI'),
                # reserved words as property names before a slash / a line break
                ('ID', 'EQ', 'ID', 'PERIOD', 'RETURN', 'DIV', 'NUMBER', 'DIV', 'ID', 'SEMI'), ('ID', 'EQ', 'ID', 'PERIOD', 'IF', 'LPAREN', 'ID', 'RPAREN', 'DIV', 'NUMBER', 'DIV', 'ID', 'SEMI'),
                ('ID', 'EQ', 'ID', 'PERIOD', 'TYPEOF', 'PERIOD', 'IN', 'DIV', 'NUMBER', 'SEMI')]
    structs = list(dict.fromkeys(structs))
    _TL['sp'] = sp
    chunks = [structs[i::64] for i in range(64)]
    tres = common.pmap(_tjob, chunks)
    ntext = sum(r[0] for r in tres)
    from .. import replay as rp
    pending = {}
    for n, bad in tres:
        for w, gap, c, text, plain2, msg in bad:
            key = classify(msg, w, gap)
            pending.setdefault(key, {'property': 'C13', 'input': {'text': text, 'plain': plain2, 'tokens': list(w), 'gap': gap, 'comment': c}})
    for key, rpd in list(pending.items())[:30]:
        ok, detail = rp.run_in_subprocess(rpd)
        if ok:
            run.violation(key, detail[:500], rpd)
        else:
            run.inconclusive_('failure did not reproduce: %s %s' % (key, detail[:200]))
    src = boot.scratch_dir()
    sx.install(src)
    from calmjs.parse.lexers.es5 import Lexer
    dom = rawsx.RawDomain(Lexer)
    _TL.update(Lexer=Lexer, dom=dom)
    jobs = []
    for nreal in range(1, (3 if th else 2) + 1):
        gaps = list(range(nreal + 1))
        for k in ((1, 2) if (nreal <= 1 or (th and nreal <= 2)) else (1,)):
            for placement in itertools.combinations_with_replacement(gaps, k):
                jobs.append((nreal, placement))
    sres = common.pmap(_sjob, jobs)
    tot = dict(paths=0, reached=0, z3_checks=0, assertions=0, solver_s=0.0)
    samples = []
    for args, st, viols, errs in sres:
        for k in tot:
            tot[k] += st[k]
        if st['unsupported'] or st['errors'] or st['bound_hits']:
            run.inconclusive_('comment harness %r: %r' % (args, errs))
        if st['reached'] == 0:
            run.inconclusive_('comment harness %r vacuous' % (args,))
        if len(samples) < 3:
            samples.append({'harness': repr(args), 'stats': st})
        for msg, w in viols[:1]:
            names = dom.names
            wc = 'with_comments=True' in msg
            tag = 'k%d_' % int(wc)
            ks = sorted(((int(k[len(tag):]), names[int(v)]) for k, v in w.items() if k.startswith(tag) and k[len(tag):].isdigit() and str(v).isdigit()))
            kinds = [k for i, k in ks]
            rpd = {'property': 'C13', 'input': {'raw_kinds': kinds, 'with_comments': wc}}
            ok, detail = rp.run_in_subprocess(rpd)
            if ok:
                run.violation('C13 S: the token stream changes when comments are inserted (%s)' % ' '.join('C' if 'COMMENT' in k else k for k in kinds)[:80], detail[:400], rpd)
            else:
                run.inconclusive_('token stream depends on comment items for raw kinds %r: %s | %s' % (kinds, msg[:160], detail[:160]))
    run.coverage.update({
        'explanation': 'S: real Lexer wrapper under SX, relational check (with vs without comment items) over all kind sequences of <= %d real tokens, capture off and on; '
                       'T: %d texts (structures x gaps x %d comment spellings) checked for transparency, verbatim/located/ordered/unique attachment, and print-reparse of comments.' % (
                           3 if th else 2, ntext, len(COMMENTS)),
        'evaluations': tot['paths'] + ntext, 'distinct_nontrivial': tot['reached'] + len(structs),
        'rule': 'S: one per SX path; T: one per text', 'samples': samples + [{'T_structures': len(structs)}],
        'queries': tot['z3_checks'], 'solver_s': round(tot['solver_s'], 1), 'assertions_discharged': tot['assertions'],
        'bounds': {'S': '<= %d real tokens, <= 2 single-line comment items' % (3 if th else 2), 'T': '%d structures, one comment per text' % len(structs),
                   'outside': 'several comments per text in T; comments inside restricted productions with a line terminator (a different program by 7.9)'},
    })
    run.assumptions += ['a single-line comment is white space; a comment with a line terminator acts as that terminator (7.4)']
    return run.finish()
