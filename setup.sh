#!/bin/bash
# offline bootstrap: z3 (python API + CLI) into /verif/.pydeps from the local wheelhouse
set -e
here="$(cd "$(dirname "$0")" && pwd)"
if [ ! -f "$here/.pydeps/.ok" ]; then
  (
    flock 9
    if [ ! -f "$here/.pydeps/.ok" ]; then
      rm -rf "$here/.pydeps"
      PIP_NO_INDEX=1 /venv/bin/python -m pip install -q --no-index --find-links /opt/veriftools/wheels \
          --target "$here/.pydeps" z3-solver
      touch "$here/.pydeps/.ok"
    fi
  ) 9>"$here/.pydeps.lock"
fi

PYTHONDONTWRITEBYTECODE=1 /venv/bin/python "$here/tools/validate_sx.py"
echo "setup ok"
