#!/bin/bash
# usage: revalidate_seeded.sh <Cxx-k> [check ids...]   (default check: the mutant's own property)
# Re-confirms a seeded change against /repo's current HEAD in a scratch worktree (removed afterwards) and runs checks on it:
#   patch applies; demo exits 0 on the pristine tree and non-zero on the changed tree; the repository suite passes on the changed
#   tree; each named check exits 1 with a VIOLATION line.  Prints one JSON line.
m=$1; shift; id=${m%-*}; checks=${@:-$id}; tier=${TIER:-quick}
wt=$(mktemp -d /tmp/rv_${m}_XXXX); ev=$(mktemp -d /tmp/rvev_${m}_XXXX)
git -C /repo worktree add -q --detach $wt HEAD >/dev/null 2>&1 || { echo "{\"mutant\":\"$m\",\"error\":\"worktree\"}"; exit 9; }
trap 'git -C /repo worktree remove --force $wt >/dev/null 2>&1; rm -rf $wt $ev' EXIT
applies=true; git -C $wt apply --check /verif/seeded/$m/patch.diff 2>/dev/null || applies=false
/venv/bin/python /verif/tools/with_tree.py $wt /verif/seeded/$m/demo.py >$ev/p.log 2>&1; p=$?
suite=""; d=-1; res=""
if $applies; then
  git -C $wt apply /verif/seeded/$m/patch.diff
  suite=$(/venv/bin/python /verif/tools/run_suite.py $wt 2>/dev/null | head -1)
  /venv/bin/python /verif/tools/with_tree.py $wt /verif/seeded/$m/demo.py >$ev/m.log 2>&1; d=$?
  for c in $checks; do
    t0=$(date +%s)
    CALMJS_VERIF_REPO=$wt CALMJS_VERIF_EVIDENCE=$ev timeout ${TMO:-1800} /verif/check $c --tier $tier >$ev/$c.log 2>&1; rc=$?
    nv=$(grep -a -c '^VIOLATION' $ev/$c.log); first=$(grep -a -m1 '^VIOLATION' $ev/$c.log | sed 's/.*# //' | cut -c1-160 | tr '"\\' "' " | tr -d '\000-\037')
    res="$res{\"check\":\"$c\",\"rc\":$rc,\"violations\":$nv,\"s\":$(( $(date +%s)-t0 )),\"first\":\"$first\"},"
  done
fi
echo "{\"mutant\":\"$m\",\"head\":\"$(git -C /repo rev-parse --short HEAD)\",\"applies\":$applies,\"demo_pristine\":$p,\"demo_changed\":$d,\"suite\":\"$suite\",\"tier\":\"$tier\",\"checks\":[${res%,}]}"
