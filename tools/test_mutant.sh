#!/bin/bash
# usage: test_mutant.sh <Cxx-k> <check id> [tier]  -- run a check against a seeded mutant applied in a scratch worktree
m=$1; chk=$2; tier=${3:-quick}; id=${m%-*}
wt=/tmp/wt/mut_$m
[ -d $wt ] || git -C /repo worktree add -q --detach $wt >/dev/null 2>&1; git -C $wt checkout -q --detach $(git -C /repo rev-parse HEAD)
git -C $wt checkout -q -- . && git -C $wt apply /verif/seeded/$m/patch.diff || { echo "apply failed"; exit 9; }
mkdir -p /tmp/ev_$m
CALMJS_VERIF_REPO=$wt CALMJS_VERIF_EVIDENCE=/tmp/ev_$m timeout ${TMO:-1800} /verif/check $chk --tier $tier > /tmp/ev_$m/$chk.log 2>&1; rc=$?
git -C $wt checkout -q -- .
echo "mutant=$m check=$chk tier=$tier rc=$rc $(grep -c '^VIOLATION' /tmp/ev_$m/$chk.log) violation line(s); $(grep -m1 '^VIOLATION' /tmp/ev_$m/$chk.log | cut -c1-260)"
