#!/venv/bin/python
"""Run a python script against the calmjs.parse sources of a given tree (not the installed copy).
usage: /venv/bin/python /tmp/vtools/with_tree.py <repo_root> <script.py> [args...]
The script sees `import calmjs.parse` resolving to <repo_root>/src (via a temporary copy)."""
import os, sys, shutil, tempfile, runpy
root, script = sys.argv[1], os.path.abspath(sys.argv[2])
base = tempfile.mkdtemp(prefix='calmjs_tree_')
code = 0
try:
    shutil.copytree(os.path.join(root, 'src'), os.path.join(base, 'src'),
                    ignore=shutil.ignore_patterns('__pycache__', '*.pyc', 'lextab_*', 'yacctab_*'))
    for m in list(sys.modules):
        if m.startswith('calmjs.parse'):
            del sys.modules[m]
    import calmjs
    calmjs.__path__ = [os.path.join(base, 'src', 'calmjs')]
    import calmjs.parse
    assert calmjs.parse.__file__.startswith(base)
    sys.argv = [script] + sys.argv[3:]
    try:
        runpy.run_path(script, run_name='__main__')
    except SystemExit as e:
        code = e.code if isinstance(e.code, int) else (0 if e.code is None else 1)
finally:
    shutil.rmtree(base, ignore_errors=True)
sys.exit(code)
