#!/venv/bin/python
"""Run the repository's own test suite (calmjs.parse.tests.make_suite, incl. doctests)
against the working tree of <repo_root> (default /repo) - not the copy installed in /venv.

usage: /venv/bin/python run_suite.py [repo_root]
exit 0 iff every test passed."""
import os, sys, shutil, tempfile, unittest
root = sys.argv[1] if len(sys.argv) > 1 else '/repo'
base = tempfile.mkdtemp(prefix='calmjs_suite_')
try:
    shutil.copytree(os.path.join(root, 'src'), os.path.join(base, 'src'),
                    ignore=shutil.ignore_patterns('__pycache__', '*.pyc', 'lextab_*', 'yacctab_*'))
    for m in list(sys.modules):
        if m.startswith('calmjs.parse'):
            del sys.modules[m]
    import calmjs
    calmjs.__path__ = [os.path.join(base, 'src', 'calmjs')]
    import calmjs.parse
    assert calmjs.parse.__file__.startswith(base)
    os.chdir(base)
    from calmjs.parse.tests import make_suite
    r = unittest.TextTestRunner(verbosity=0, stream=sys.stderr).run(make_suite())
    print('ran=%d failures=%d errors=%d skipped=%d' % (r.testsRun, len(r.failures), len(r.errors), len(r.skipped)))
    for t, tb in (r.failures + r.errors)[:10]:
        print('FAILED', t)
        print(tb[-800:])
    sys.exit(0 if r.wasSuccessful() else 1)
finally:
    shutil.rmtree(base, ignore_errors=True)
