"""translation validation of the SX instrumentation: the repository's own suite (802 tests incl. doctests) must pass
on the AST-instrumented package with no symbolic value anywhere"""
import sys, os, unittest
here = os.path.dirname(os.path.dirname(os.path.abspath(__file__)))
sys.path.insert(0, here); sys.path.insert(0, os.path.join(here, '.pydeps'))
from vplib import boot, sx
src = boot.scratch_dir()
sx.install(src)
os.chdir(src)
from calmjs.parse.tests import make_suite
r = unittest.TextTestRunner(verbosity=0, stream=open(os.devnull, 'w')).run(make_suite())
print('instrumented package: ran=%d failures=%d errors=%d' % (r.testsRun, len(r.failures), len(r.errors)))
for t, tb in (r.failures + r.errors)[:5]:
    print('FAILED', t, tb[-400:])
sys.exit(0 if r.wasSuccessful() and r.testsRun > 700 else 1)
