#!/bin/bash
# usage: seeded_matrix.sh [parallel]   -- revalidates every seeded change against /repo HEAD (own property's check + the cross
# checks listed below) and writes seeded/STATUS.jsonl and seeded/STATUS.md
cd /verif
par=${1:-2}
declare -A CROSS=( [C03-3]="C03 C04" [C04-4]="C04 C03" [C05-4]="C05 C03" [C09-4]="C09 C18" [C20-1]="C20 C14" [C06-3]="C06 C03" [C20-3]="C20 C03" [C02-2]="C02 C03" [C08-3]="C08 C06 C11" [C11-4]="C11 C06" [C12-4]="C12 C06")
: > /tmp/matrix_jobs.txt
for d in seeded/C*/; do m=$(basename $d); echo "$m ${CROSS[$m]:-${m%-*}}" >> /tmp/matrix_jobs.txt; done
cat /tmp/matrix_jobs.txt | xargs -P $par -L 1 tools/revalidate_seeded.sh > seeded/STATUS.jsonl.new 2>/tmp/matrix.err
sort seeded/STATUS.jsonl.new > seeded/STATUS.jsonl; rm seeded/STATUS.jsonl.new
/venv/bin/python tools/seeded_status.py
