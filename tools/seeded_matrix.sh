#!/bin/bash
# usage: seeded_matrix.sh [parallel]   -- revalidates every seeded change against /repo HEAD (own property's check + the cross
# checks listed below) and writes seeded/STATUS.jsonl and seeded/STATUS.md
cd /verif
par=${1:-2}
declare -A CROSS=( [C03-3]="C03 C04" [C04-4]="C04 C03" [C05-4]="C05 C03" [C09-4]="C09 C18" [C20-1]="C20 C14" [C06-3]="C06 C03" [C20-3]="C20 C03" [C08-3]="C08 C06" [C11-4]="C11 C06" [C12-4]="C12 C06" [C02-5]="C02 C13" [C02-6]="C02 C04" [C09-5]="C09 C18" [C03-6]="C03 C05" [C01-6]="C01 C05" [C04-5]="C04 C05" [C04-6]="C04 C03" [C08-6]="C08 C18" [C07-5]="C07 C14" [C13-5]="C13 C05" [C06-5]="C06 C03" [C18-5]="C18 C12" )
: > /tmp/matrix_jobs.txt
for d in seeded/C*/; do m=$(basename $d); echo "$m ${CROSS[$m]:-${m%-*}}" >> /tmp/matrix_jobs.txt; done
cat /tmp/matrix_jobs.txt | xargs -P $par -L 1 tools/revalidate_seeded.sh > seeded/STATUS.jsonl.new 2>/tmp/matrix.err
sort seeded/STATUS.jsonl.new > seeded/STATUS.jsonl; rm seeded/STATUS.jsonl.new
/venv/bin/python tools/seeded_status.py
