#!/bin/bash
# usage: confirm_mutant.sh <Cxx> <k> [<index to store under>]   -- confirms an agent-delivered mutant in its scratch worktree and stores it under /verif/seeded
id=$1; k=$2; wt=/tmp/wt/$id; out=/tmp/wt/${id}_out
cd $wt || exit 9
git checkout -q -- . ; [ -z "$(git status --short)" ] || { echo "$id-$k worktree dirty"; exit 9; }
git apply --check $out/patch$k.diff || { echo "$id-$k patch does not apply"; exit 9; }
/venv/bin/python /tmp/vtools/with_tree.py $wt $out/demo$k.py >/tmp/wt/${id}_out/pristine$k.log 2>&1; p=$?
git apply $out/patch$k.diff
suite=$(/venv/bin/python /tmp/vtools/run_suite.py $wt 2>/dev/null | head -1)
/venv/bin/python /tmp/vtools/with_tree.py $wt $out/demo$k.py >/tmp/wt/${id}_out/mutant$k.log 2>&1; m=$?
git checkout -q -- .
echo "$id-$k pristine_demo=$p mutant_demo=$m suite='$suite'"
if [ $p -eq 0 ] && [ $m -ne 0 ] && [ "$suite" = "ran=802 failures=0 errors=0 skipped=0" ]; then
  d=/verif/seeded/$id-${3:-$k}; [ -e $d ] && { echo "$d exists"; exit 9; }; mkdir -p $d
  cp $out/patch$k.diff $d/patch.diff; cp $out/demo$k.py $d/demo.py
  /venv/bin/python - "$out/meta$k.json" "$d/meta.json" "$id" "$suite" "$p" "$m" <<'PY'
import json,sys
src,dst,pid,suite,p,m=sys.argv[1:]
try: meta=json.load(open(src))
except Exception: meta={}
meta.update({'property':pid,'confirmed_by':'tools/confirm_mutant.sh in a scratch worktree: patch applies to pristine HEAD; repository suite (802 tests incl. doctests) run against the patched tree; demo exit codes re-observed',
 'suite_with_mutant':suite,'demo_pristine_exit':int(p),'demo_mutant_exit':int(m),
 'how_to_run_demo':'/venv/bin/python /verif/tools/with_tree.py <repo_root> demo.py'})
json.dump(meta,open(dst,'w'),indent=1)
PY
  echo "$id-$k CONFIRMED"
else echo "$id-$k REJECTED"; fi
