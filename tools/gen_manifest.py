#!/venv/bin/python
"""writes /verif/MANIFEST.json from the table below (single place where claims are stated)"""
import json, os
V = os.path.dirname(os.path.dirname(os.path.abspath(__file__)))
CHECKS = {
 'C01': dict(
    level=('other', 'Bounded structure space (every AUTOSEMI-free token string of length <= 3/4 accepted by the real LALR tables, one sentence per production, literal-kind and block-nesting variants; thorough: + every production pair) parsed by the real parser; the real pretty printer then runs under SX with every leaf spelling (identifier, number, string, regex) a z3 string ranging over its token language (translated from the live lexer patterns). '
                    'Per path (= one set of layout decisions of the real handlers) z3 decides for every directly adjacent token pair that no spelling makes them fuse or change lexical class (calmjs token languages and ES5 7.8.3) and that no line terminator lands in a restricted production; each path model is instantiated and replayed: parse-print-parse tree identity, byte fix-point, reference ES5 scanner segmentation.', 'DESIGN.md C01'),
    note='Trusted: leaf abstraction (parser depends on spellings only through token types), class alphabet, ref/refscan.py as "any conforming ES5 scanner". Outside: program shapes beyond the space, spellings longer than 3-5 characters, comments (C13).',
    technique='symbolic execution of the real printer code with z3 strings for all leaf spellings over a bounded, table-derived structure space; path models replayed through parse/print/parse',
    engine='SX+GX+RX'),
 'C02': dict(
    level=('other', 'Same harness as C01 with the real minify printer, drop_semi off and on: z3 decides per path and adjacent token pair (specialised by lexical class of the left token) that no spelling fuses them; every path model replayed for tree identity (string continuations stripped, stand-alone empty statements ignored) and for the reference ES5 scanner reading exactly the printed tokens; dropped semicolons are judged by the re-parse.', 'DESIGN.md C02'),
    note='As C01. Known findings (fusion classes with non-\\w identifier characters, regex+keyword, number+.) are matched by the lexical classes of the fused pair so any other pair is still reported.',
    technique='symbolic execution of the real minifier code with z3 strings for all leaf spellings over a bounded, table-derived structure space; path models replayed',
    engine='SX+GX+RX'),
 'C20': dict(
    level=('other', 'The real pretty printer runs under SX with the INDENTATION STRING symbolic (z3 string over space/tab, length <= 3, empty included) and symbolic leaf spellings on every structure of the C01 space; per path z3 decides that every token-starting line begins with exactly indent_str x depth (depth from an independent brace/case counter over the output skeleton), final depth 0, exactly one trailing newline; a reuse leg (symbolic abandon index) renders on a printer object that was abandoned mid-way before; a replay leg places comments (incl. CR/CRLF line comments).', 'DESIGN.md C20'),
    note='Trusted: the depth reference (open braces + 1 in case/default bodies). Outside: comments and multi-line tokens, deeper programs, histories of printer reuse (C14).',
    technique='symbolic execution of the real pretty printer with a symbolic indentation string and symbolic leaves (z3 strings), bounded structure space',
    engine='SX+GX+RX'),
 'C03': dict(
    level=('model_checking', 'Bounded monolithic SAT: for each length n one query over ALL token strings in Sigma^n (91 terminals) decides LR-SAT(real ply LALR tables regenerated from the working tree, plus the ProductionError side condition found by executing the actions) against CFG-SAT(ECMA-262 Annex A.3-A.5 reference grammar), both directions, and - where both accept - equality of every labelled node span (node kind from executing the real p_* action + terminal skeleton). '
                              'A second leg compares the yield language of each of 100 corresponding non-terminals (phrases <= 7/8 tokens), embedding and replaying every witness, which reaches deviations whose smallest program is longer than the sentence bound. '
                              'A third leg decides, as z3 regular-language (in)equivalence over strings of any length, that the live token patterns (identifier, number, string, regex, both comments) generate the ES5 clause 7 languages (Annex B forms not judged), and compares punctuators, reserved words, white space and the non-ASCII identifier classes as finite sets. quick: acceptance n<=7, tree n<=6; thorough: 9 / 8.', 'DESIGN.md C03'),
    note='Trusted: ply LRParser drives the tables as LR theory says (validated each run on all accepted strings up to length 3/4 and on every witness through the real engine); z3 as SAT solver (sat models always replayed); ref/es5_syntactic.gram and ref/es5_lexical.py as the reading of the standard. Outside: longer sentences, lexer feedback (C04/C05), master-pattern priority (C06), contextual get/set, early errors. Labels not compared: Identifier/PropIdentifier/VarDecl (factoring differs between the grammars).',
    technique='bounded SAT encoding of the real LALR tables (LR-SAT) vs a reference CFG (CFG-SAT), all token strings up to length n per query; z3 regular-language equivalence of the token patterns vs the ES5 lexical grammar; witnesses replayed on the real ply engine / lexer',
    engine='GX+RX'),
 'C16': dict(
    level=('other', 'Complete enumeration of the finite spaces the property is about - every p_* action executed on every combination of child value shapes (presence/absence/list) it can receive, children() compared with attribute reflection for the node built and every node nested in it; every accepted token string of length <= 4/5 (from the real tables) parsed and walked against a reflection-based reference traversal - plus SX symbolic execution of Walker.extract with a symbolic skip count (z3 decides the loop). '
                    'The solver only contributes the extract leg: optional-part presence is a finite Python-level (is None) structure that no solver variable can stand for, so that part is exhaustive enumeration and said so.', 'DESIGN.md C16'),
    note='Trusted: vars(node) reflection as the definition of "stored in an attribute"; the comments attribute is excluded (comment nodes are not children by design). Outside: trees of the T leg longer than the bound.',
    technique='exhaustive enumeration of child-shape combinations per production and of bounded accepted token strings (from the real LALR tables) + symbolic execution (z3) of Walker.extract with symbolic skip',
    engine='SX+GX'),
 'C18': dict(
    level=('fault_enumeration', 'The real io.read/io.write/write_sourcemap run under SX with stream doubles that raise when a shared call counter equals a SYMBOLIC fault index; z3 decides every comparison, so each explored path is one feasible fault position (every factory call, read, parse, unparse step, write, writelines) or the fault-free run, for 56 (quick) / 200+ (thorough) stream arrangements (one with non-ASCII names whose inline map needs + and / of base64, decoded strictly); closing discipline and propagation asserted on every path, content/URL/map equality with the lower-level API on the fault-free path.', 'DESIGN.md C18'),
    note='Trusted: stream doubles model any stream; expected paths computed with os.path.relpath. Outside: faults in close(), two faults per run, symbolic path strings.',
    technique='symbolic execution of the real Python code with a symbolic fault index (z3 Int) over instrumented stream doubles',
    engine='SX'),
 'C17': dict(
    level=('model_checking', 'Seven parser configurations are built by the real code in separate interpreters on scratch copies (generated modules, in-memory un-optimised, helper first-build, helper re-optimise, first build in an ASCII locale with the helper\'s utf8 patch, and the helper run from a partial stale module set: stale yacctab only / stale lextab only); their LALR tables are compared pairwise by LR-SAT in-equivalence queries over all token strings up to length 5/9 (identical tables give a syntactically unsatisfiable formula, differing ones a SAT search for a distinguishing input); master lexer patterns and rule bindings compared alternative by alternative; SX proves for every spelling that each lexer rule function returns a declared token type (the check ply skips in optimised mode, so a violation is exactly an input on which the modes diverge).', 'DESIGN.md C17'),
    note='Trusted: ply semantics; textual identity of master regexes implies equal lexing. Outside: longer inputs; language-equivalence of textually different master patterns is reported as inconclusive, not decided.',
    technique='bounded SAT in-equivalence of LALR table sets (LR-SAT) + symbolic execution (z3 strings) of the lexer rule functions',
    engine='GX+SX'),
 'C04': dict(
    level=('other', 'S: the real Lexer wrapper (auto_semi, _is_prev_token_lt, _get_update_token, _token) runs under SX on a raw-token source whose kinds are symbolic finite-domain z3 values; over all kind sequences of <= 3/4 raw items z3 decides that a semicolon is supplied iff the offending token is `}` or separated by a line terminator (also inside a multi-line comment / not a multi-line string), and that the lexer emits the virtual semicolon exactly at the first terminator after return/break/continue/throw (with <= 2 arbitrary tokens before and <= 3 layout items after). '
                    'Symbolic counterexamples are rendered as text and replayed through the plain lexer against an independent scan of the layout. '
                    'T (replay of the metamorphic statement): table-derived structures x every statement-terminating `;` x 13 separating layouts, judged against 7.9 evaluated on the real LALR tables (offending = prefix.token not viable). N (replay): a line terminator inserted in any gap of a fully punctuated program changes nothing except after a restricted keyword in its statement role and before ++/--.', 'DESIGN.md C04'),
    note='Trusted: the raw-token source as a model of the regex level; the real tables as the grammar (C03). Outside: several omitted semicolons at once; longer programs. The structure/layout product of leg T is exploration, stated as such.',
    technique='symbolic execution of the real lexer wrapper on symbolic token kinds (z3 finite domain) against a ghost oracle + table-driven metamorphic replay',
    engine='SX+GX'),
 'C05': dict(
    level=('other', 'S: relational SX check on the real Lexer._token/_get_update_token/_set_tokens: for every placement of <= 2 layout items of symbolic kind among <= 2/3 real tokens of symbolic kind, z3 decides that the DIV/REGEX face given to a following slash-initial item equals the face without the layout. '
                    'T: ~2500 (quick: every 5th) table-derived structures with a slash token in each grammatical role (incl. nested parentheses and headers) x 14 layouts (incl. NBSP, VT/FF, BOM, CRLF, U+2028) and 4 regex spellings: parse(text) must build the tree the real LALR tables + actions build from the token string in which DIV/REGEX are given.', 'DESIGN.md C05'),
    note='Trusted: raw-token source models the regex level; token-level reference = real tables (C03). The T leg is exploration over a derived space.',
    technique='symbolic execution of the real lexer wrapper on symbolic token kinds (relational: with/without layout) + table-driven replay',
    engine='SX+GX'),
 'C12': dict(
    level=('other', 'P: one step of the real yacc error hook (Parser.p_error, _raise_syntax_error, format_lex_token) from an arbitrary symbolic lexer state under SX - every optional token present/absent, every token kind symbolic - z3 decides each test; any exception other than ECMASyntaxError on a feasible path is reported. '
                    'E: exhaustive enumeration of every string of length <= 3/4 over 56/38 class representatives, all truncations and single-character corruptions of corpus programs, and long-run/deep-nesting stress inputs through parse() under the default recursion limit: termination (30 s CPU budget; inputs aimed at unbounded regex backtracking included), exception type, and that every quoted text at line:col in the message occurs there and the column lies on that line.', 'DESIGN.md C12'),
    note='Trusted: class representatives w.r.t. the lexer patterns; the contract of auto_semi at end of input (decided in C04). The lexer error handlers (regex-driven) are covered by enumeration only - their regex operations on symbolic text are outside the SX model.',
    technique='symbolic execution of the real error hook from an arbitrary lexer state (z3 finite domains) + exhaustive enumeration of short strings',
    engine='SX'),
 'C14': dict(
    level=('other', 'SX over symbolic call histories: one printer object (5 configurations incl. obfuscating rule stacks), a first call abandoned after a SYMBOLIC number of fragments (z3 Int compared with the fragment counter: paths = exactly the feasible abandon points + exhaustion) or raising mid-way, then reuse; the reused printer must yield the fragment sequence of a fresh one and every tree (deep snapshot incl. positions) must be unchanged; histories of length 2/3 over 4 trees incl. a 300-name scope and literals with line continuations; shortcut entry points compared with explicit calls.', 'DESIGN.md C14'),
    note='Trusted: fragment tuples compare by value. Outside: longer histories, interleaved generators.',
    technique='symbolic execution with a symbolic abandon index over bounded call histories of the real printers',
    engine='SX'),
 'C13': dict(
    level=('other', 'S: relational SX check on the real Lexer wrapper: the stream of real tokens (kinds, AUTOSEMI, DIV/REGEX faces) with comment items inserted at <= 2 gaps of <= 2/3 tokens of symbolic kind equals the stream without them, capture off and on, no comment handed over twice. '
                    'Symbolic counterexamples are replayed as text. T: structures (incl. get/set as names and as accessors) x every gap x 7 comment spellings: tree equality with/without capture and vs the comment-free text; attached comments verbatim, located, ordered, unique; pretty-print/re-parse keeps tree and comment sequence; no line terminator between a restricted keyword and its operand.', 'DESIGN.md C13'),
    note='Trusted: a single-line comment is white space, a comment with a terminator acts as that terminator (7.4). One comment per text in T. The T leg is exploration.',
    technique='symbolic execution of the real lexer wrapper on symbolic token kinds (relational: with/without comments) + replay of comment placements',
    engine='SX+GX'),
 'C06': dict(
    level=('other', 'P: the real Lexer.get_lexer_token/_update_newline_idx/_get_colno/lookup_colno run under SX on raw tokens whose offsets are sums of SYMBOLIC lengths and gaps and whose values carry 0-2 separators of SYMBOLIC kind (LF, CR, CRLF, U+2028, U+2029, or FF/NEL which must NOT count as terminators); z3 decides lineno, colno, lookup_colno and the whole newline index against a ghost count for all lengths. '
                    'R: z3 regular-language lemmas on the live patterns (line-terminator rules generate exactly the five sequences, keywords are identifiers, master-pattern order of punctuators, value tokens never start with /). '
                    'S: every string of length <= 3/4 over 56/38 class representatives through the real lexer: order, value == source slice, only ES5 white space in the gaps, line/column by independent count, longest punctuator; plus every character the live t_ignore skips and every separator/format/control code point below U+3100 around tokens.', 'DESIGN.md C06'),
    note='Trusted: the split model is derived from the live compiled pattern by probing; ply strips t_ignore first and tries master alternatives in order. Outside: more than 2 terminators per token in P; longer inputs in S.',
    technique='symbolic execution of the real lexer bookkeeping on symbolic lengths/terminator kinds (z3 Ints, finite domains) + z3 regular-language lemmas + exhaustive short-string enumeration',
    engine='SX+RX'),
 'C07': dict(
    level=('other', 'E: exhaustive over a bounded space - 18 scope skeletons (functions, closures, catch, closures and nested catch inside a catch block, accessors, labels, hoisting, named function expressions) x every assignment of their name slots over an order/equality-complete pool of 5/12 spellings x 4/6 printer configurations, plus scopes of 230 and 500 names (generated names reach do/if/in) - each judged by an independent ES5 scope resolver (binding partition equal, free / property / top-level names unchanged, no reserved word, output parses, differs from the plain output only in identifier tokens). '
                    'N: NameGenerator under SX with a symbolic skipped symbol. The obfuscator inspects names only through ==, < and hashing, so its behaviour on a skeleton is determined by the equality/order pattern of the names, which the pool realises completely for <= 4 names; symbolic names through the real obfuscator were probed and rejected on cost (see DESIGN.md).', 'DESIGN.md C07'),
    note='Trusted: ref/scopes_ref.py as the reading of ES5 scoping; the completeness argument for the pool. Outside: other scope shapes, more than 4 distinct source names per skeleton, with/eval, function declarations inside blocks (unspecified in ES5).',
    technique='exhaustive enumeration of scope skeletons x name assignments judged by an independent scope resolver; symbolic execution (z3 strings) of the name generator',
    engine='SX'),
 'C19': dict(
    level=('other', 'Evaluation of a literal spelling is CPython C code (ast.literal_eval) and cannot be executed symbolically here; that half is decided by differential enumeration against json.loads over boundary spellings (escapes, exponents, fractions, negative zero, unicode) x shapes x binding contexts x fold_ops. '
                    'The structural half runs the real extractor under SX with every string/number leaf spelling a z3 string and literal_eval an uninterpreted marker: for all spellings the value under the bound name is the literal structure with literal_eval applied to exactly each leaf (negation outside), nothing else added; the code never branches on a spelling, so these obligations are discharged syntactically (0 solver queries - stated).', 'DESIGN.md C19'),
    note='Honest scope: the solver contributes nothing to the evaluation half; it is enumeration. The deviations of literal_eval from JSON found by the enumeration (\\/ kept with its backslash, surrogate pairs not combined) are recorded as known findings.',
    technique='symbolic execution with uninterpreted literal evaluation (structure) + differential enumeration vs json.loads (evaluation)',
    engine='SX'),
 'C08': dict(
    level=('other', 'Inductive per production: the node every real p_* action builds from SYMBOLIC slot positions (z3 Ints, symbolic newline index) is printed by the real pretty, minify and obfuscating printers; for every fragment with an explicit position z3 decides - for all layouts at once - that it is the position of a token of the production spelled like the fragment (or like the recorded original name). '
                    'Backed by a replay leg over corpus x 6 layouts (LF, CR, CRLF, U+2028/9, multi-line tokens) x 3 printers x comments on/off with two files chained, and a tree with sources nested A > B > A, judged against the source text.', 'DESIGN.md C08'),
    note='Trusted: ply tracking (position of a non-terminal = its first token), validated by the replay leg; the lexer guarantee (C06) and node invariant (C11) are hypotheses of the inductive step. AUTOSEMI semicolons exempt as the property says.',
    technique='symbolic execution of the real parser actions and printers on symbolic token positions (z3 Ints + uninterpreted newline index), per production; whole-program replay',
    engine='SX'),
 'C11': dict(
    level=('other', 'Inductive per production: every real p_* action runs on SYMBOLIC slot positions (z3 Ints) and a symbolic newline index (uninterpreted function) for every combination of child shapes; for every node created z3 decides that offset/line/column agree, that the position is the start of one of the node\'s own tokens (for-clause placeholders exempt) and that every recorded token position is where a token of that spelling stands - for all layouts at once. '
                    'Replay leg: every node of corpus programs under 6 layouts against an independent line/column counter and the source text.', 'DESIGN.md C11'),
    note='Trusted: ply tracking stub (validated by replay); lexer guarantee "offset lies on its recorded line" is C06; induction hypothesis on children.',
    technique='symbolic execution of the real parser actions on symbolic token positions (z3 Ints + uninterpreted newline index), inductive per production; whole-program replay',
    engine='SX'),
 'C09': dict(
    level=('other', 'Bounded/inductive symbolic execution of the real sourcemap.write, normalize_mapping_line(s), Names, Bookkeeper, encode_sourcemap (SX, z3 Ints for every position, length and index): '
                    'W = one step from an arbitrary valid writer state for each of 504 fragment shapes (induction over stream length), N = normalisation of symbolic lines of <= 4/6 segments with arbitrary carry (induction over lines), '
                    'E = whole runs from the initial state on <= 2/4 fragments decoded from scratch by a spec decoder; C = 1400 concrete streams with LF/CR/CRLF in every position of a chunk (validates the text model; fall-back when a change makes the symbolic legs inconclusive). A solver is the right tool: the defects live in running deltas whose wrong values appear only after particular sequences, and one inductive step covers all of them.', 'DESIGN.md C09'),
    note='Trusted: z3; SX instrumentation; ref/sourcemap_ref.py as the reading of Source Map V3; the writer-state representation invariant (base case checked by leg E). Stub: encode_mappings (VLQ text) is C10. Outside: text shapes with more than two line pieces per fragment, fragments giving only one of line/column.',
    technique='symbolic execution of the real Python code with z3 (inductive step over an arbitrary symbolic writer state + bounded whole runs), differential against a spec decoder on the same symbolic segments',
    engine='SX'),
 'C10': dict(
    level=('other', 'Bounded symbolic execution of the real vlq.py on z3 bit-vectors (SX engine): per path z3 decides every branch and the negated codec laws; '
                    'covers every integer |i| < 2^64 (quick) / 2^300 (thorough), lists, every canonical string up to 4/7 characters and mappings structures. '
                    'Right level because the codec is loop-over-digits integer code whose interesting inputs (group boundaries, signs) are rare: a solver covers all of them inside the bound.', 'DESIGN.md C10'),
    note='Trusted: z3, the SX instrumentation (validated by running the repository suite on the instrumented package), ref/vlq_ref.py as the reading of the Source Map V3 spec. Outside the bound: larger magnitudes, longer lists/strings.',
    technique='symbolic execution of the real Python code with z3 bit-vectors (path-wise, bounded), differential against a spec codec run on the same symbolic data',
    engine='SX'),
 'C15': dict(
    level=('other', 'Frame condition decided by symbolic execution: the real Lexer wrapper (token, _token, _get_update_token, _set_tokens, auto_semi, get_lexer_token, _update_newline_idx, hidden-token bookkeeping) runs under SX on a raw-token source of <= 3/4 items whose kinds are symbolic (z3 finite domain), comment capture off and on, and every real p_* action runs on symbolic positions for every child-shape combination; after every token step and at the end of every path a structural snapshot of all module- and class-level state of calmjs.parse.* and ply.* (about 1300 entries: data by value, functions with defaults/closures/attributes, table modules) must equal the snapshot taken before. '
                    'A parse that writes to nothing which outlives it cannot be observed by a later or a concurrent parse, so the frame condition covers histories of any length and all thread schedules without enumerating either. '
                    'Replay legs: the same snapshots around and inside (at every token) real parse() calls on table-derived accepted and rejected programs; every ordered pair of 56 (text, flag) items parsed in one process against fresh interpreters; a sampled thread leg (8 threads, 1 microsecond switch interval). A shared-state write is reported as a violation only with an observable consequence (a history or thread difference replayed in a fresh interpreter), otherwise as inconclusive.', 'DESIGN.md C15'),
    note='Trusted: ply LRParser/Lexer keep their working state per object (read off yacc.py/lex.py, not executed symbolically); CPython re objects are stateless between matches; seven ply backward-compatibility globals (lex.lexer/token/input, yacc.parse, yacc._errok/_token/_restart) are rebound by ply on every construction / error hook and never read (static scan of calmjs.parse each run). Outside: writes made and undone between two token steps; thread schedules themselves (sampled only: the thread half rests on the frame condition); state inside C extension code.',
    technique='symbolic execution (z3) of the real lexer wrapper on symbolic token kinds and of every parser action on symbolic positions, asserting on every path a frame condition (snapshot equality of all process-shared state); history pairs and sampled thread runs as replay',
    engine='SX+GX'),
}
NOT_APPLICABLE = {
}
PENDING = 'check not built yet in this round - not claimed until its solver-based check exists (see DESIGN.md for the planned encoding)'

def main():
    props = [json.loads(l)['id'] for l in open(os.path.join(V, 'properties.jsonl'))]
    checks = []
    for pid in props:
        if pid not in CHECKS:
            continue
        c = CHECKS[pid]
        cat, text, ref = c['level']
        checks.append({
            'property_id': pid,
            'quick_cmd': './check %s --tier quick' % pid,
            'thorough_cmd': './check %s --tier thorough' % pid,
            'evidence_file': 'evidence/%s.json' % pid,
            'replay_cmd_template': './check replay {path}',
            'engine': c.get('engine', 'SX'),
            'level_claimed': {'category': cat, 'text': text, 'design_ref': ref},
            'level_note': c['note'],
            'technique': c['technique'],
        })
    na = [{'property_id': p, 'reason': NOT_APPLICABLE.get(p, PENDING)} for p in props if p not in CHECKS]
    m = {
        'version': 1,
        'setup_cmd': './setup.sh',
        'hooks': {'guard': 'CALMJS_PARSE_VERIF', 'enable': 'no hooks in /repo: instrumentation is an import-time AST rewrite living in /verif (vplib/sx.py) applied to a scratch copy of /repo/src',
                  'baseline_off_cmd': 'cd /repo && /venv/bin/python -m pytest -ra -q -p no:cacheprovider --timeout=900 --continue-on-collection-errors',
                  'source_commits': [], 'add_only': True},
        'engines': [
            {'name': 'SX', 'path': 'vplib/sx.py', 'serves_properties': [p for p in props if CHECKS.get(p, {}).get('engine', '').startswith('SX')], 'kind_free_text': 'source-instrumented symbolic execution of the real Python modules with z3 (path-wise DFS by re-execution)'},
            {'name': 'GX', 'path': 'vplib/gx.py', 'serves_properties': [p for p in props if 'GX' in CHECKS.get(p, {}).get('engine', '')], 'kind_free_text': 'grammar / LALR tables as SAT (CFG-SAT, LR-SAT), DIMACS via z3'},
            {'name': 'RX', 'path': 'vplib/rx.py', 'serves_properties': [p for p in props if 'RX' in CHECKS.get(p, {}).get('engine', '')], 'kind_free_text': 'token regexes translated from sre parse trees to z3 regular expressions'},
        ],
        'checks': checks,
        'not_applicable': na,
        'notes': 'Exit codes: 0 held within the stated bounds; 1 + VIOLATION line = replayed, confirmed violation; 2 = inconclusive / harness error (never a pass). Known findings: known_findings.json.',
    }
    json.dump(m, open(os.path.join(V, 'MANIFEST.json'), 'w'), indent=1)
    print('MANIFEST.json: %d checks, %d not_applicable' % (len(checks), len(na)))

if __name__ == '__main__':
    main()
